use vstd::prelude::*;
use std::collections::BTreeMap;
verus! {
broadcast use vstd::std_specs::btree::group_btree_axioms;

fn merge(a: &mut BTreeMap<u64, u64>, b: &BTreeMap<u64, u64>)
    ensures
        forall|k: u64| #[trigger] final(a)@.dom().contains(k) <==> old(a)@.dom().contains(k) || b@.dom().contains(k),
{
    let hoisted_tmp = b.clone();
    for (con, span) in it: hoisted_tmp.iter()
        invariant
            hoisted_tmp@ == b@,
            forall|k: u64| #[trigger] a@.dom().contains(k) <==> old(a)@.dom().contains(k)
                || exists|j: int| 0 <= j < it.index@ && *(#[trigger] it.seq()[j]).0 == k,
    {
        a.insert(con.clone(), *span);
    }
}
} // verus!
fn main() {}
