use vstd::prelude::*;
use std::collections::{HashMap, BTreeMap, BTreeSet};
use std::collections::btree_map::Entry::{Occupied, Vacant};
verus! {

#[derive(Clone, Copy, PartialEq, Eq, Hash)]
pub struct Var(pub usize);

pub enum IR { Nil(Var), Add(Var, Var, Var), Define(Var), Call(Var, Var, Vec<Var>) }

pub fn count_usages(ops: &[IR]) -> HashMap<Var, usize> {
    let mut table = HashMap::new();
    for op in ops {
        match op {
            IR::Nil(_) => {}
            IR::Define(a) => {
                *table.entry(*a).or_insert(0) += 2;
            }
            IR::Add(_, a, b) => {
                *table.entry(*a).or_insert(0) += 1;
                *table.entry(*b).or_insert(0) += 1;
            }
            IR::Call(_, a, bs) => {
                *table.entry(*a).or_insert(0) += 1;
                for b in bs.iter() {
                    *table.entry(*b).or_insert(0) += 1;
                }
            }
        }
    }
    table
}

} // verus!
fn main() {}
