use vstd::prelude::*;
use std::collections::{BTreeMap, BTreeSet};
use std::collections::btree_map::Entry::{Occupied, Vacant};
verus! {
#[verifier::external_body]
pub struct Statement { x: usize }

fn order<'a>(
    to_order: BTreeMap<usize, (BTreeSet<usize>, &'a Statement)>,
) -> Result<Vec<&'a Statement>, Vec<&'a Statement>> {
    enum State {
        Inserting,
        Inserted,
    }

    #[verifier::exec_allows_no_decreases_clause]
    fn recurse<'a>(
        global: &usize,
        to_order: &BTreeMap<usize, (BTreeSet<usize>, &'a Statement)>,
        inserted: &mut BTreeMap<usize, State>,
        ordered: &mut Vec<&'a Statement>,
    ) -> Result<(), Vec<&'a Statement>> {
        let (deps, statement) = if let Some(thing) = to_order.get(&global) {
            thing
        } else {
            return Ok(());
        };

        match inserted.entry(global.clone()) {
            Vacant(entry) => entry.insert(State::Inserting),
            Occupied(entry) => {
                return match entry.get() {
                    State::Inserting => Err(Vec::new()),
                    State::Inserted => Ok(()),
                }
            }
        };

        for dep in deps {
            recurse(dep, to_order, inserted, ordered).map_err(|mut cycle| {
                cycle.push(*statement);
                cycle
            })?;
        }
        ordered.push(*statement);
        inserted.insert(global.clone(), State::Inserted);

        Ok(())
    }

    let mut ordered = Vec::new();
    let mut inserted = BTreeMap::new();
    for (var, _) in to_order.iter() {
        recurse(var, &to_order, &mut inserted, &mut ordered)?;
    }

    Ok(ordered)
}
} // verus!
fn main() {}
