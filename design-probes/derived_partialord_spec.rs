use vstd::prelude::*;
use vstd::std_specs::cmp::*;
use core::cmp::Ordering;
verus! {

#[derive(PartialEq, PartialOrd, Clone, Copy, Debug)]
pub enum Prec {
    No,
    Assert,
    BoolOr,
    BoolAnd,
    Comp,
    Term,
    Factor,
    Index,
    Arrow,
}

pub open spec fn rank(p: Prec) -> int {
    match p {
        Prec::No => 0, Prec::Assert => 1, Prec::BoolOr => 2, Prec::BoolAnd => 3, Prec::Comp => 4,
        Prec::Term => 5, Prec::Factor => 6, Prec::Index => 7, Prec::Arrow => 8,
    }
}

impl PartialOrdSpecImpl for Prec {
    open spec fn obeys_partial_cmp_spec() -> bool { true }
    open spec fn partial_cmp_spec(&self, other: &Prec) -> Option<Ordering> {
        if rank(*self) < rank(*other) { Some(Ordering::Less) }
        else if rank(*self) > rank(*other) { Some(Ordering::Greater) }
        else { Some(Ordering::Equal) }
    }
}

pub enum T { Plus, Star, Ident(String), EOF }

fn precedence(token: &T) -> (r: Prec)
{
    match token {
        T::Star => Prec::Factor,
        T::Plus => Prec::Term,
        _ => Prec::No,
    }
}

fn cmp_probe(prec: Prec, tok: &T) -> (r: bool)
    ensures (prec == Prec::No) ==> r
{
    prec <= precedence(tok)
}

} // verus!
fn main() {}
