import re
def _match_brace(src, i):
    depth=0; j=i; n=len(src)
    while j<n:
        c=src[j]
        if c=='"':
            j+=1
            while src[j] != '"':
                if src[j]=='\\': j+=1
                j+=1
        elif c=="'" :
            m=re.match(r"'(\\.|[^\\'])'", src[j:j+4])
            if m: j+=len(m.group(0))-1
        elif c=='/' and src[j+1]=='/':
            j=src.index('\n', j)
        elif c=='{': depth+=1
        elif c=='}':
            depth-=1
            if depth==0: return j
        j+=1
    raise Exception("unbalanced")
def extract_item(src, kind, name):
    pat=re.compile(r'^[ \t]*(?:pub(?:\([a-z]+\))?\s+)?'+kind+r'\s+'+re.escape(name)+r'\b', re.M)
    ms=list(pat.finditer(src))
    if len(ms)!=1: raise Exception(f"{kind} {name}: {len(ms)} matches")
    m=ms[0]
    start=m.start()
    # include preceding attribute / doc-comment lines
    while True:
        prev_end=start-1
        if prev_end<=0: break
        prev_start=src.rfind('\n',0,prev_end)+1
        line=src[prev_start:prev_end].strip()
        if line.startswith('#[') or line.startswith('///'):
            start=prev_start
        else: break
    class M: pass
    mm=M(); mm.s=start
    # tuple struct / unit with ';' before '{'?
    semi=src.find(';', m.end()); br=src.find('{', m.end())
    if semi!=-1 and (br==-1 or semi<br): return src[start:semi+1]
    j=_match_brace(src, br)
    return src[start:j+1]
def strip_attrs(t):
    def keep(m):
        a=m.group(0)
        d=re.match(r'[ \t]*#\[derive\(([^)]*)\)\]',a)
        if d:
            ks=[k.strip() for k in d.group(1).split(',') if k.strip() in ('Clone','Copy','PartialEq','Eq','Hash','PartialOrd','Ord')]
            return ('#[derive('+', '.join(ks)+')]\n') if ks else ''
        return ''
    t=re.sub(r'^[ \t]*#\[[^\]]*\]\s*\n',keep,t,flags=re.M)
    t=re.sub(r'^[ \t]*///[^\n]*\n','',t,flags=re.M)
    return t
