
use vstd::prelude::*;
use vstd::std_specs::cmp::*;
pub mod ext {
    #[derive(Clone, PartialEq, Eq, Hash, PartialOrd, Ord, Debug)]
    pub struct Type { x: usize }
    #[derive(Clone, PartialEq, Eq, Hash, PartialOrd, Debug)]
    pub struct FileOrLib { x: usize }
}
use std::collections::{BTreeMap, HashMap};
verus! {

pub mod sylt_tokenizer_m {
    use super::*;
    #[derive(Clone, Copy, PartialEq, Eq, Hash)]
    pub struct Span { pub file_id: usize, pub line_start: usize, pub line_end: usize, pub col_start: usize, pub col_end: usize }
impl Span {
    pub fn zero(file_id: usize) -> Self {
        Self {
            file_id,
            line_start: 0,
            line_end: 0,
            col_start: 0,
            col_end: 0,
        }
    }
}
}
pub mod sylt_common {
    use super::*;
    pub use crate::ext::{Type, FileOrLib};
    #[verifier::external_type_specification]
    #[verifier::external_body]
    pub struct ExType(Type);
    #[verifier::external_type_specification]
    #[verifier::external_body]
    pub struct ExFileOrLib(FileOrLib);
    pub assume_specification [ <Type as Clone>::clone ] (e: &Type) -> (r: Type) ensures r == *e;
    pub assume_specification [ <FileOrLib as Clone>::clone ] (e: &FileOrLib) -> (r: FileOrLib) ensures r == *e;
    #[derive(Clone, Copy, PartialEq, Eq)]
    pub struct TyID(pub usize);
    pub struct Error { pub span: super::sylt_tokenizer_m::Span }
}
pub mod sylt_parser {
    use super::*;
    pub use super::sylt_tokenizer_m::Span;
    use super::sylt_common::{FileOrLib, TyID, Type as RuntimeType};
    pub mod expression { pub use super::{CaseBranch, IfBranch, ComparisonKind}; }
    type Alias = Identifier;
#[derive(Copy, Clone, PartialEq, Eq, PartialOrd, Ord, Hash)]
pub enum VarKind {
    Const,
    Mutable,
}

#[derive(Copy, Clone, PartialEq)]
pub enum Op {
    Nop,
    Add,
    Sub,
    Mul,
    Div,
}

impl Clone for Identifier { #[verifier::external_body] fn clone(&self) -> (r: Self) ensures r == *self { unimplemented!() } }
#[derive(Eq, Hash)]
pub struct Identifier {
    pub span: Span,
    pub name: String,
}

impl Clone for AssignableKind { #[verifier::external_body] fn clone(&self) -> (r: Self) ensures r == *self { unimplemented!() } }
impl PartialEq for AssignableKind { #[verifier::external_body] fn eq(&self, other: &Self) -> (r: bool) ensures r == (*self == *other) { unimplemented!() } }
pub enum AssignableKind {
    Read(Identifier),
    Variant {
        enum_ass: Box<Assignable>,
        variant: Identifier,
        value: Box<Expression>,
    },
    Call(Box<Assignable>, Vec<Expression>),
    ArrowCall(Box<Expression>, Box<Assignable>, Vec<Expression>),
    Access(Box<Assignable>, Identifier),
    Index(Box<Assignable>, Box<Expression>),
    Expression(Box<Expression>),
}

impl Clone for Assignable { #[verifier::external_body] fn clone(&self) -> (r: Self) ensures r == *self { unimplemented!() } }
pub struct Assignable {
    pub span: Span,
    pub kind: AssignableKind,
}

impl Clone for TypeAssignableKind { #[verifier::external_body] fn clone(&self) -> (r: Self) ensures r == *self { unimplemented!() } }
impl PartialEq for TypeAssignableKind { #[verifier::external_body] fn eq(&self, other: &Self) -> (r: bool) ensures r == (*self == *other) { unimplemented!() } }
pub enum TypeAssignableKind {
    Read(Identifier),
    Access(Box<TypeAssignable>, Identifier),
}

impl Clone for TypeAssignable { #[verifier::external_body] fn clone(&self) -> (r: Self) ensures r == *self { unimplemented!() } }
impl PartialEq for TypeAssignable { #[verifier::external_body] fn eq(&self, other: &Self) -> (r: bool) ensures r == (*self == *other) { unimplemented!() } }
pub struct TypeAssignable {
    pub span: Span,
    pub kind: TypeAssignableKind,
}

impl Clone for TypeKind { #[verifier::external_body] fn clone(&self) -> (r: Self) ensures r == *self { unimplemented!() } }
impl PartialEq for TypeKind { #[verifier::external_body] fn eq(&self, other: &Self) -> (r: bool) ensures r == (*self == *other) { unimplemented!() } }
pub enum TypeKind {
    Implied,
    Resolved(RuntimeType),
    UserDefined(TypeAssignable, Vec<Type>),
    Fn {
        constraints: BTreeMap<String, Vec<TypeConstraint>>,
        params: Vec<Type>,
        ret: Box<Type>,
        is_pure: bool,
    },
    Tuple(Vec<Type>),
    List(Box<Type>),
    Generic(String),
    Grouping(Box<Type>),
}

impl Clone for Type { #[verifier::external_body] fn clone(&self) -> (r: Self) ensures r == *self { unimplemented!() } }
pub struct Type {
    pub span: Span,
    pub kind: TypeKind,
}

impl Clone for TypeConstraint { #[verifier::external_body] fn clone(&self) -> (r: Self) ensures r == *self { unimplemented!() } }
impl PartialEq for TypeConstraint { #[verifier::external_body] fn eq(&self, other: &Self) -> (r: bool) ensures r == (*self == *other) { unimplemented!() } }
pub struct TypeConstraint {
    pub name: Identifier,
    pub args: Vec<Identifier>,
}

impl Clone for ComparisonKind { #[verifier::external_body] fn clone(&self) -> (r: Self) ensures r == *self { unimplemented!() } }
impl PartialEq for ComparisonKind { #[verifier::external_body] fn eq(&self, other: &Self) -> (r: bool) ensures r == (*self == *other) { unimplemented!() } }
pub enum ComparisonKind {
    Equals,
    NotEquals,
    Greater,
    GreaterEqual,
    Less,
    LessEqual,
}

impl Clone for CaseBranch { #[verifier::external_body] fn clone(&self) -> (r: Self) ensures r == *self { unimplemented!() } }
impl PartialEq for CaseBranch { #[verifier::external_body] fn eq(&self, other: &Self) -> (r: bool) ensures r == (*self == *other) { unimplemented!() } }
pub struct CaseBranch {
    pub pattern: Identifier,
    pub variable: Option<Identifier>,
    pub body: Vec<Statement>,
}

impl Clone for IfBranch { #[verifier::external_body] fn clone(&self) -> (r: Self) ensures r == *self { unimplemented!() } }
impl PartialEq for IfBranch { #[verifier::external_body] fn eq(&self, other: &Self) -> (r: bool) ensures r == (*self == *other) { unimplemented!() } }
pub struct IfBranch {
    pub condition: Option<Expression>,
    pub body: Vec<Statement>,
    pub span: Span,
}

impl Clone for ExpressionKind { #[verifier::external_body] fn clone(&self) -> (r: Self) ensures r == *self { unimplemented!() } }
impl PartialEq for ExpressionKind { #[verifier::external_body] fn eq(&self, other: &Self) -> (r: bool) ensures r == (*self == *other) { unimplemented!() } }
pub enum ExpressionKind {
    Get(Assignable),

    Add(Box<Expression>, Box<Expression>),
    Sub(Box<Expression>, Box<Expression>),
    Mul(Box<Expression>, Box<Expression>),
    Div(Box<Expression>, Box<Expression>),
    Neg(Box<Expression>),

    Comparison(Box<Expression>, ComparisonKind, Box<Expression>),

    AssertEq(Box<Expression>, Box<Expression>),

    And(Box<Expression>, Box<Expression>),
    Or(Box<Expression>, Box<Expression>),
    Not(Box<Expression>),

    Parenthesis(Box<Expression>),

    If(Vec<IfBranch>),

    Case {
        to_match: Box<Expression>,
        branches: Vec<CaseBranch>,
        fall_through: Option<Vec<Statement>>,
    },

    Function {
        name: String,
        params: Vec<(Identifier, Type)>,
        ret: Type,

        body: Vec<Statement>,
        pure: bool,
    },
    Blob {
        blob: TypeAssignable,
        fields: Vec<(String, Expression)>, // Keep calling order
    },
    Tuple(Vec<Expression>),
    List(Vec<Expression>),

    Float(f64),
    Int(i64),
    Str(String),
    Bool(bool),
    Nil,
}

impl Clone for Expression { #[verifier::external_body] fn clone(&self) -> (r: Self) ensures r == *self { unimplemented!() } }
pub struct Expression {
    pub span: Span,
    pub ty: Option<TyID>,
    pub kind: ExpressionKind,
}

impl Clone for NameIdentifier { #[verifier::external_body] fn clone(&self) -> (r: Self) ensures r == *self { unimplemented!() } }
impl PartialEq for NameIdentifier { #[verifier::external_body] fn eq(&self, other: &Self) -> (r: bool) ensures r == (*self == *other) { unimplemented!() } }
pub enum NameIdentifier {
    Implicit(Identifier),
    Alias(Identifier),
}

impl Clone for StatementKind { #[verifier::external_body] fn clone(&self) -> (r: Self) ensures r == *self { unimplemented!() } }
impl PartialEq for StatementKind { #[verifier::external_body] fn eq(&self, other: &Self) -> (r: bool) ensures r == (*self == *other) { unimplemented!() } }
pub enum StatementKind {
    Use {
        path: Identifier,
        name: NameIdentifier,
        file: FileOrLib,
    },

    FromUse {
        path: Identifier,
        imports: Vec<(Identifier, Option<Alias>)>,
        file: FileOrLib,
    },

    Blob {
        name: Identifier,
        variables: Vec<Identifier>,
        fields: HashMap<Identifier, Type>,
        external: bool,
    },

    Enum {
        name: Identifier,
        variables: Vec<Identifier>,
        variants: HashMap<Identifier, Type>,
    },

    Assignment {
        kind: Op,
        target: Assignable,
        value: Expression,
    },

    Definition {
        ident: Identifier,
        kind: VarKind,
        ty: Type,
        value: Expression,
    },

    ExternalDefinition {
        ident: Identifier,
        kind: VarKind,
        ty: Type,
    },

    Loop {
        condition: Expression,
        body: Box<Statement>,
    },

    Break,

    Continue,

    Ret {
        value: Option<Expression>,
    },

    Block {
        statements: Vec<Statement>,
    },

    StatementExpression {
        value: Expression,
    },

    Unreachable,

    EmptyStatement,
}

impl Clone for Statement { #[verifier::external_body] fn clone(&self) -> (r: Self) ensures r == *self { unimplemented!() } }
pub struct Statement {
    pub span: Span,
    pub kind: StatementKind,
    pub comments: Vec<String>,
}

impl PartialOrd for Identifier {
    fn partial_cmp(&self, other: &Self) -> Option<std::cmp::Ordering> {
        Some(self.name.cmp(&other.name))
    }
}

impl Ord for Identifier {
    fn cmp(&self, other: &Self) -> std::cmp::Ordering {
        self.name.cmp(&other.name)
    }
}

impl PartialEq for Identifier {
    fn eq(&self, other: &Self) -> bool {
        self.name == other.name
    }
}

impl PartialEq for Assignable {
    fn eq(&self, other: &Self) -> bool {
        self.kind == other.kind
    }
}

impl PartialEq for Type {
    fn eq(&self, other: &Self) -> bool {
        self.kind == other.kind
    }
}

impl PartialEq for Expression {
    fn eq(&self, other: &Self) -> bool {
        self.kind == other.kind
    }
}

impl PartialEq for Statement {
    fn eq(&self, other: &Self) -> bool {
        self.kind == other.kind
    }
}

    pub use crate_tok::Token;
    type T = Token;
impl Identifier {
    pub fn new(span: Span, name: String) -> Self {
        Self { span, name }
    }
}
    pub struct PError { pub span: Span }
    type Error = PError;
    type ParseResult<'t, T> = Result<(Context<'t>, T), (Context<'t>, Vec<Error>)>;
    #[verifier::external_body]
    pub struct Path { x: usize }
    #[verifier::external_body]
    fn opaque_perr(span: Span) -> Error { unimplemented!() }
    macro_rules! syntax_error { ($ctx:expr, $( $msg:expr ),* ) => { opaque_perr($ctx.span()) }; }
    macro_rules! raise_syntax_error { ($ctx:expr, $( $msg:expr ),* ) => { return Err(($ctx.skip(1), vec![syntax_error!($ctx, $( $msg ),*)])) }; }
macro_rules! expect {
    ($ctx:expr, $( $token:pat )|+ , $( $msg:expr ),+ ) => {
        {
            if !matches!($ctx.token(), $( $token )|* ) {
                raise_syntax_error!($ctx, $( $msg ),*);
            }
            $ctx.skip(1)
        }
    };

    ($ctx:expr, $( $token:pat )|+ ) => {
        expect!($ctx, $( $token )|*, concat!("Expected ", stringify!($( $token )|*)))
    };
}
macro_rules! skip_while {
    ($ctx:expr, $( $token: pat )|+ ) => {
        {
            let mut ctx = $ctx;
            while matches!(ctx.token(), $( $token )|*) {
                ctx = ctx.skip(1);
            }
            ctx
        }
    };
}
macro_rules! skip_until {
    ($ctx:expr, $( $token:pat )|+ ) => {
        {
            let mut ctx = $ctx;
            while !matches!(ctx.token(), T::EOF | $( $token )|*) {
                ctx = ctx.skip(1);
            }
            ctx
        }
    };
}
#[derive(PartialEq, PartialOrd, Clone, Copy)]
pub enum Prec {
    No,
    Assert,
    BoolOr,
    BoolAnd,
    Comp,
    Term,
    Factor,
    Index,
    Arrow,
}
    pub trait Next: Sized { fn next(&self) -> Self; }
    impl Next for Prec {
        fn next(&self) -> Self {
            match self {
                Prec::No => Prec::Assert, Prec::Assert => Prec::BoolOr, Prec::BoolOr => Prec::BoolAnd,
                Prec::BoolAnd => Prec::Comp, Prec::Comp => Prec::Term, Prec::Term => Prec::Factor,
                Prec::Factor => Prec::Index, Prec::Index => Prec::Arrow, Prec::Arrow => Prec::Arrow,
            }
        }
    }
#[derive(Copy, Clone)]
pub struct Context<'a> {
    pub skip_newlines: bool,
    last_statement: usize,
    pub tokens: &'a [Token],
    pub spans: &'a [Span],
    curr: usize,
    pub file: &'a FileOrLib,
    pub file_id: usize,
    pub root: &'a Path,
}
impl<'a> Context<'a> {
    pub fn new(
        tokens: &'a [Token],
        spans: &'a [Span],
        file: &'a FileOrLib,
        file_id: usize,
        root: &'a Path,
    ) -> Self {
        Self {
            skip_newlines: false,
            last_statement: 0,
            tokens,
            spans,
            curr: 0,
            file,
            file_id,
            root,
        }
    }

    /// Get a [Span] representing the current location of the parser.
    fn span(&self) -> Span {
        self.peek().1
    }

#[verifier::external_body]
    fn comments_since_last_statement(&self) -> Vec<String> { unimplemented!() }

    /// Move to the next nth token.
    #[verifier::exec_allows_no_decreases_clause]
    fn skip(&self, n: usize) -> Self {
        let mut new = *self;
        let mut skipped = 0;
        // Skip n non comment tokens.
        while skipped < n {
            if !matches!(new.token(), T::Comment(_)) {
                skipped += 1;
            }
            new.curr += 1;
        }
        // Skip trailing comments and (maybe) newlines.
        loop {
            match new.token() {
                T::Comment(_) => new.curr += 1,
                T::Newline if self.skip_newlines => new.curr += 1,
                _ => break,
            }
        }
        new
    }

    /// Back up one token. Will not move past the beginning.
    #[verifier::exec_allows_no_decreases_clause]
    fn prev(&self) -> Self {
        let mut new = *self;
        new.curr = new.curr.saturating_sub(1);
        // Continue going backwards if we're at a comment.
        while matches!(new.token(), T::Comment(_)) {
            new.curr = new.curr.saturating_sub(1);
        }
        new
    }

    /// Signals that newlines should be skipped until [pop_skip_newlines].
    fn push_skip_newlines(&self, skip_newlines: bool) -> (Self, bool) {
        let mut new = *self;
        new.skip_newlines = skip_newlines;
        // If currently on a newline token - we want to skip it.
        (new.skip(0), self.skip_newlines)
    }

    /// Reset to old newline skipping state.
    fn pop_skip_newlines(&self, skip_newlines: bool) -> Self {
        let mut new = *self;
        new.skip_newlines = skip_newlines;
        new
    }

    fn push_last_statement_location(&self) -> Self {
        Self { last_statement: self.curr, ..*self }
    }

    fn skip_if(&self, token: T) -> Self {
        if self.token() == &token {
            self.skip(1)
        } else {
            *self
        }
    }

#[verifier::external_body]
    fn _skip_if_any<const N: usize>(&self, tokens: [T; N]) -> Self { unimplemented!() }

    /// Return the current [Token] and [Span].
    fn peek(&self) -> (&Token, Span) {
        let token = self.tokens.get(self.curr).unwrap_or(&T::EOF);
        let zero_span = Span::zero(self.file_id);
        let span = self.spans.get(self.curr).unwrap_or(&zero_span).clone();
        (token, span)
    }

    /// Return the current [Token].
    fn token(&self) -> &T {
        &self.peek().0
    }

    #[verifier::external_body]
    fn tokens_lookahead<const N: usize>(&self) -> [Token; N] { unimplemented!() }

    /// Eat a [Token] and move to the next.
    fn eat(&self) -> (&T, Span, Self) {
        (self.token(), self.span(), self.skip(1))
    }
}
    impl Expression { pub fn new(span: Span, kind: ExpressionKind) -> Self { Self { span, ty: None, kind } } }
    #[verifier::external_body] fn function<'t>(ctx: Context<'t>) -> ParseResult<'t, Expression> { unimplemented!() }
    #[verifier::external_body] fn if_expression<'t>(ctx: Context<'t>) -> ParseResult<'t, Expression> { unimplemented!() }
    #[verifier::external_body] fn case_expression<'t>(ctx: Context<'t>) -> ParseResult<'t, Expression> { unimplemented!() }
    #[verifier::external_body] fn blob<'t>(ctx: Context<'t>) -> ParseResult<'t, Expression> { unimplemented!() }
    #[verifier::external_body] fn assignable_dot_or_variant<'t>(ctx: Context<'t>, accessed: Assignable) -> ParseResult<'t, Assignable> { unimplemented!() }
#[verifier::exec_allows_no_decreases_clause]
fn parse_precedence<'t>(ctx: Context<'t>, prec: Prec) -> ParseResult<'t, Expression> {
    // Initial value, e.g. a number value, assignable, ...
    let (mut ctx, mut expr) = prefix(ctx)?;
    while prec <= precedence(ctx.token()) {
        if !valid_infix(ctx) {
            break;
        }
        let (ctx_, _expr) = infix(ctx, &expr)?;
        // assign to outer
        ctx = ctx_;
        expr = _expr;
    }
    Ok((ctx, expr))
}

fn precedence(token: &T) -> Prec {
    use Prec;

    match token {
        T::LeftBracket | T::Dot | T::LeftParen => Prec::Index,

        T::Star | T::Slash => Prec::Factor,

        T::Minus | T::Plus => Prec::Term,

        T::EqualEqual
        | T::Greater
        | T::GreaterEqual
        | T::Less
        | T::LessEqual
        | T::NotEqual => Prec::Comp,

        T::And => Prec::BoolAnd,
        T::Or => Prec::BoolOr,

        T::AssertEqual => Prec::Assert,

        T::Arrow => Prec::Arrow,

        _ => Prec::No,
    }
}

fn value<'t>(ctx: Context<'t>) -> Result<(Context<'t>, Expression), (Context<'t>, Vec<Error>)> {
    use ExpressionKind::*;
    let (token, span, ctx) = ctx.eat();
    let kind = match token.clone() {
        T::Float(f) => Float(f),
        T::Int(i) => Int(i),
        T::Bool(b) => Bool(b),
        T::Nil => Nil,
        T::String(s) => Str(s),
        t => {
            raise_syntax_error!(ctx, "Cannot parse value, '{:?}' is not a valid value", t);
        }
    };
    Ok((ctx, Expression::new(span, kind)))
}

#[verifier::exec_allows_no_decreases_clause]
fn prefix<'t>(ctx: Context<'t>) -> ParseResult<'t, Expression> {
    use ExpressionKind::Get;

    match ctx.token() {
        T::Fn | T::Pu => function(ctx),
        T::If => if_expression(ctx),
        T::Case => case_expression(ctx),

        T::LeftParen => grouping_or_tuple(ctx),
        T::LeftBracket => list(ctx),

        T::Float(_) | T::Int(_) | T::Bool(_) | T::String(_) | T::Nil => value(ctx),
        T::Minus | T::Not => unary(ctx),

        T::Identifier(_) => {
            let span = ctx.span();

            // Do some probing
            let is_blob = match type_assignable(ctx) {
                Ok((ctx, _)) => matches!(ctx.token(), T::LeftBrace),
                _ => false,
            };

            if is_blob {
                match blob(ctx) {
                    Ok(x) => Ok(x),
                    Err((ctx, errs)) => Err((skip_until!(ctx, T::RightBrace), errs)),
                }
            } else {
                let (ctx, assign) = assignable(ctx)?;
                Ok((ctx, Expression::new(span, Get(assign))))
            }
        }

        t => {
            raise_syntax_error!(ctx, "No valid expression starts with '{:?}'", t);
        }
    }
}

#[verifier::exec_allows_no_decreases_clause]
fn unary<'t>(ctx: Context<'t>) -> ParseResult<'t, Expression> {
    use ExpressionKind::{Neg, Not};

    let (op, span, ctx) = ctx.eat();
    let (ctx, expr) = parse_precedence(ctx, Prec::Factor)?;
    let expr = Box::new(expr);

    let kind = match op {
        T::Minus => Neg(expr),
        T::Not => Not(expr),

        _ => {
            raise_syntax_error!(ctx, "Invalid unary operator");
        }
    };
    Ok((ctx, Expression::new(span, kind)))
}

#[verifier::exec_allows_no_decreases_clause]
fn arrow_call<'t>(ctx: Context<'t>, lhs: &Expression) -> ParseResult<'t, Expression> {
    let ctx = expect!(ctx, T::Arrow, "Expected '->' in arrow function call");
    let (ctx, rhs) = expression(ctx)?;

    use AssignableKind::{ArrowCall, Call};
    use ExpressionKind::*;

    fn prepend_expresion<'t>(
        ctx: Context<'t>,
        lhs: Expression,
        rhs: Expression,
    ) -> ParseResult<'t, Expression> {
        let span = ctx.span();
        let kind = match rhs.kind {
            Get(Assignable { kind: Call(callee, args), .. }) => Get(Assignable {
                kind: ArrowCall(Box::new(lhs), callee, args),
                span: rhs.span,
            }),

            Get(Assignable { kind: ArrowCall(pre, callee, args), .. }) => {
                let (_, pre) = prepend_expresion(ctx, lhs, *pre)?;
                Get(Assignable {
                    kind: ArrowCall(Box::new(pre), callee, args),
                    span: rhs.span,
                })
            }

            _ => {
                raise_syntax_error!(ctx, "Expected a call-expression after '->'");
            }
        };
        Ok((ctx, Expression::new(span, kind)))
    }

    prepend_expresion(ctx, lhs.clone(), rhs)
}

fn valid_infix<'t>(ctx: Context<'t>) -> bool {
    matches!(
        ctx.token(),
        T::Plus
            | T::Minus
            | T::Star
            | T::Slash
            | T::EqualEqual
            | T::NotEqual
            | T::Greater
            | T::GreaterEqual
            | T::Less
            | T::LessEqual
            | T::And
            | T::Or
            | T::AssertEqual
            | T::Arrow
            | T::Prime
            | T::LeftParen
            | T::LeftBracket
            | T::Dot
    )
}

#[verifier::exec_allows_no_decreases_clause]
fn infix<'t>(ctx: Context<'t>, lhs: &Expression) -> ParseResult<'t, Expression> {
    use ComparisonKind::*;
    use ExpressionKind::*;

    // If there is no precedence it's the start of an expression.
    // All valid operators have a precedence value that is differnt
    // from `Prec::no`.
    match (ctx.token(), precedence(ctx.skip(1).token())) {
        // The cool arrow syntax. For example: `a->b(2)` compiles to `b(a, 2)`.
        // #NotLikeOtherOperators
        (T::Arrow, _) => {
            return arrow_call(ctx, lhs);
        }

        (T::Prime | T::LeftParen | T::LeftBracket | T::Dot, _) => {
            let (ctx, ass) = sub_assignable(
                ctx,
                Assignable {
                    span: ctx.span(),
                    kind: AssignableKind::Expression(Box::new(lhs.clone())),
                },
            )?;
            return Ok((ctx, Expression::new(ctx.span(), Get(ass))));
        }
        _ => {}
    }

    // Parse an operator and a following expression
    // until we reach a token with higher precedence.
    //
    // The operator has to be checked before - this
    // removes an O(x^n).
    let (op, span, ctx) = ctx.eat();

    match op {
        T::Plus
        | T::Minus
        | T::Star
        | T::Slash
        | T::EqualEqual
        | T::NotEqual
        | T::Greater
        | T::GreaterEqual
        | T::Less
        | T::LessEqual
        | T::And
        | T::Or
        | T::AssertEqual => {}

        // Unknown infix operator.
        _ => {
            raise_syntax_error!(ctx.prev(), "Not a valid infix operator");
        }
    };

    let (ctx, rhs) = parse_precedence(ctx, precedence(op).next())?;

    // Left and right of the operator.
    let lhs = Box::new(lhs.clone());
    let rhs = Box::new(rhs);

    // Which expression kind to emit depends on the token.
    let kind = match op {
        // Simple arithmetic.
        T::Plus => Add(lhs, rhs),
        T::Minus => Sub(lhs, rhs),
        T::Star => Mul(lhs, rhs),
        T::Slash => Div(lhs, rhs),

        // Comparisons
        T::EqualEqual => Comparison(lhs, Equals, rhs),
        T::NotEqual => Comparison(lhs, NotEquals, rhs),
        T::Greater => Comparison(lhs, Greater, rhs),
        T::GreaterEqual => Comparison(lhs, GreaterEqual, rhs),
        T::Less => Comparison(lhs, Less, rhs),
        T::LessEqual => Comparison(lhs, LessEqual, rhs),

        // Boolean operators.
        T::And => And(lhs, rhs),
        T::Or => Or(lhs, rhs),

        T::AssertEqual => AssertEq(lhs, rhs),

        // Unknown infix operator.
        _ => {
            unreachable!();
        }
    };

    Ok((ctx, Expression::new(span, kind)))
}

#[verifier::exec_allows_no_decreases_clause]
fn grouping_or_tuple<'t>(ctx: Context<'t>) -> ParseResult<'t, Expression> {
    let span = ctx.span();
    let ctx = expect!(ctx, T::LeftParen, "Expected '('");
    let (mut ctx, skip_newlines) = ctx.push_skip_newlines(true);

    // The expressions contained in the parenthesis.
    let mut exprs = Vec::new();

    let mut is_tuple = matches!(ctx.token(), T::Comma | T::RightParen);
    loop {
        // Any initial comma is skipped since we checked it before entering the loop.
        ctx = ctx.skip_if(T::Comma);
        match ctx.token() {
            // Done.
            T::EOF | T::RightParen => {
                break;
            }

            // Another inner expression.
            _ => {
                let (ctx_, expr) = expression(ctx)?;
                exprs.push(expr);
                ctx = ctx_; // assign to outer

                // Not a tuple, until it is.
                is_tuple = is_tuple || matches!(ctx.token(), T::Comma);
                if is_tuple {
                    if matches!(ctx.token(), T::Comma | T::RightParen) {
                        ctx = ctx.skip_if(T::Comma);
                    } else {
                        raise_syntax_error!(ctx, "Expected a ',' or ')' to end tuple argument");
                    }
                } else {
                    break;
                };
            }
        }
    }

    let ctx = ctx.pop_skip_newlines(skip_newlines);
    let ctx = expect!(ctx, T::RightParen, "Expected ',' or ')'");

    use ExpressionKind::{Parenthesis, Tuple};
    let result = if is_tuple {
        Expression::new(span, Tuple(exprs))
    } else {
        Expression::new(span, Parenthesis(Box::new(exprs.remove(0))))
    };
    Ok((ctx, result))
}

#[verifier::exec_allows_no_decreases_clause]
fn list<'t>(ctx: Context<'t>) -> ParseResult<'t, Expression> {
    let span = ctx.span();
    let ctx = expect!(ctx, T::LeftBracket, "Expected '['");
    let (mut ctx, skip_newlines) = ctx.push_skip_newlines(true);

    // Inner experssions.
    let mut exprs = Vec::new();
    loop {
        match ctx.token() {
            // Done with inner expressions.
            T::EOF | T::RightBracket => {
                break;
            }

            // Another one.
            _ => {
                let (ctx_, expr) = expression(ctx)?;
                exprs.push(expr);
                ctx = ctx_; // assign to outer
                expect!(
                    ctx,
                    T::Comma | T::RightBracket,
                    "Expected ',' or ']' after element"
                );
                ctx = ctx.skip_if(T::Comma);
            }
        }
    }

    let ctx = ctx.pop_skip_newlines(skip_newlines);
    let ctx = expect!(ctx, T::RightBracket, "Expected ']'");
    use ExpressionKind::List;
    Ok((ctx, Expression::new(span, List(exprs))))
}

#[verifier::exec_allows_no_decreases_clause]
pub fn expression<'t>(ctx: Context<'t>) -> ParseResult<'t, Expression> {
    parse_precedence(ctx, Prec::No)
}

#[verifier::exec_allows_no_decreases_clause]
#[verifier::external_body]
fn assignable_call<'t>(ctx: Context<'t>, callee: Assignable) -> ParseResult<'t, Assignable> { unimplemented!() }

#[verifier::exec_allows_no_decreases_clause]
fn assignable_index<'t>(ctx: Context<'t>, indexed: Assignable) -> ParseResult<'t, Assignable> {
    let span = ctx.span();
    let mut ctx = expect!(ctx, T::LeftBracket, "Expected '[' when indexing");

    let expr =
        if let (_ctx, expr @ Expression { kind: ExpressionKind::Int(_), .. }) = expression(ctx)? {
            ctx = _ctx; // assign to outer
            expr
        } else {
            raise_syntax_error!(ctx, "Expected 'int' when parsing tuple indexing");
        };
    let ctx = expect!(ctx, T::RightBracket, "Expected ']' after index");

    use AssignableKind::Index;
    let result = Assignable {
        span,
        kind: Index(Box::new(indexed), Box::new(expr)),
    };
    sub_assignable(ctx, result)
}

#[verifier::exec_allows_no_decreases_clause]
fn sub_assignable<'t>(ctx: Context<'t>, assignable: Assignable) -> ParseResult<'t, Assignable> {
    match ctx.token() {
        T::Prime | T::LeftParen => assignable_call(ctx, assignable),
        T::LeftBracket => assignable_index(ctx, assignable),
        T::Dot => assignable_dot_or_variant(ctx, assignable),
        _ => Ok((ctx, assignable)),
    }
}

#[verifier::exec_allows_no_decreases_clause]
fn assignable<'t>(ctx: Context<'t>) -> ParseResult<'t, Assignable> {
    use AssignableKind::*;
    let outer_span = ctx.span();

    // Get the identifier.
    let ident = if let (T::Identifier(name), span) = (ctx.token(), ctx.span()) {
        let ident = Identifier::new(span, name.clone());
        Assignable { span: outer_span, kind: Read(ident) }
    } else {
        raise_syntax_error!(
            ctx,
            "Assignable expressions have to start with an identifier"
        );
    };

    // Parse chained [], . and ().
    sub_assignable(ctx.skip(1), ident)
}

#[verifier::exec_allows_no_decreases_clause]
pub fn type_assignable<'t>(ctx: Context<'t>) -> ParseResult<'t, TypeAssignable> {
    fn type_assignable_inner<'t>(
        ctx: Context<'t>,
        assignable: TypeAssignableKind,
    ) -> ParseResult<'t, TypeAssignableKind> {
        let span = ctx.span();
        match ctx.token() {
            T::Identifier(name) if is_capitalized(name) => {
                let ctx = ctx.skip(1);
                let ident = Identifier::new(span, name.clone());
                let assignable = TypeAssignable { span, kind: assignable };
                Ok((ctx, TypeAssignableKind::Access(Box::new(assignable), ident)))
            }

            T::Identifier(name) if !is_capitalized(name) => {
                let ctx = expect!(ctx.skip(1), T::Dot, "Expected '.' after namespace");
                let ident = Identifier::new(span, name.clone());
                let assignable = TypeAssignableKind::Access(
                    Box::new(TypeAssignable { span, kind: assignable }),
                    ident,
                );
                type_assignable_inner(ctx, assignable)
            }

            _ => Ok((ctx, assignable)),
        }
    }

    let span = ctx.span();
    let (ctx, kind) = match ctx.token() {
        T::Identifier(name) if is_capitalized(name) => {
            let ctx = ctx.skip(1);
            let ident = Identifier::new(span, name.clone());
            (ctx, TypeAssignableKind::Read(ident))
        }

        T::Identifier(name) if !is_capitalized(name) => {
            let ctx = expect!(ctx.skip(1), T::Dot, "Expected '.' after namespace");
            let outer = TypeAssignableKind::Read(Identifier::new(span, name.clone()));
            type_assignable_inner(ctx, outer)?
        }

        _ => {
            raise_syntax_error!(ctx, "Failed to parse user-defined type");
        }
    };

    Ok((ctx, TypeAssignable { span, kind }))
}

#[verifier::external_body]
    fn is_capitalized(s: &str) -> bool { unimplemented!() }
}
pub mod crate_tok {
    use super::*;
#[derive(PartialEq, Clone)]
pub enum Token {
    Identifier(String),
    VoidType,
    BoolType,
    IntType,
    FloatType,
    StrType,
    String(String),

    // `X.`, `.Y`, `X.Y`, `XeY` and `Xe-Y`
    Float(f64),
    Int(i64),
    Nil,
    Bool(bool),
    If,
    Elif,
    Else,
    Case,
    Is,
    Break,
    Continue,
    In,
    Loop,
    Blob,
    ExternBlob,
    Enum,
    Ret,
    Plus,
    Minus,
    Star,
    Slash,
    PlusEqual,
    MinusEqual,
    StarEqual,
    SlashEqual,
    Hash,
    Colon,
    ColonColon,
    ColonEqual,
    Equal,
    EqualEqual,
    NotEqual,
    AssertEqual,
    Unreachable,
    LeftParen,
    RightParen,
    LeftBracket,
    RightBracket,
    LeftBrace,
    RightBrace,
    Do,
    End,
    Greater,
    GreaterEqual,
    Less,
    LessEqual,
    Fn,
    Pu,
    And,
    Or,
    Not,
    Bang,
    QuestionMark,
    Pipe,
    Prime,
    Comma,
    Dot,
    Arrow,
    Newline,
    Use,
    From,
    As,
    External,
    GitConflictBegin,
    GitConflictEnd,
    Comment(String),
    Whitespace,

    EOF,
    Error,
}

}
} // verus!
fn main() {}
