
use vstd::prelude::*;
use vstd::std_specs::cmp::*;
use core::cmp::Ordering;
verus! {

pub enum Token {
    Identifier(String),
    VoidType,
    BoolType,
    IntType,
    FloatType,
    StrType,
    String(String),

    // `X.`, `.Y`, `X.Y`, `XeY` and `Xe-Y`
    Float(f64),
    Int(i64),
    Nil,
    Bool(bool),
    If,
    Elif,
    Else,
    Case,
    Is,
    Break,
    Continue,
    In,
    Loop,
    Blob,
    ExternBlob,
    Enum,
    Ret,
    Plus,
    Minus,
    Star,
    Slash,
    PlusEqual,
    MinusEqual,
    StarEqual,
    SlashEqual,
    Hash,
    Colon,
    ColonColon,
    ColonEqual,
    Equal,
    EqualEqual,
    NotEqual,
    AssertEqual,
    Unreachable,
    LeftParen,
    RightParen,
    LeftBracket,
    RightBracket,
    LeftBrace,
    RightBrace,
    Do,
    End,
    Greater,
    GreaterEqual,
    Less,
    LessEqual,
    Fn,
    Pu,
    And,
    Or,
    Not,
    Bang,
    QuestionMark,
    Pipe,
    Prime,
    Comma,
    Dot,
    Arrow,
    Newline,
    Use,
    From,
    As,
    External,
    GitConflictBegin,
    GitConflictEnd,
    Comment(String),
    Whitespace,

    EOF,
    Error,
}

type T = Token;

#[derive(Clone, Copy)]
pub struct Span { pub file_id: usize, pub line_start: usize, pub line_end: usize, pub col_start: usize, pub col_end: usize }

#[derive(PartialEq, PartialOrd, Clone, Copy)]
pub enum Prec { No, Assert, BoolOr, BoolAnd, Comp, Term, Factor, Index, Arrow }

pub open spec fn rank(p: Prec) -> int {
    match p {
        Prec::No => 0, Prec::Assert => 1, Prec::BoolOr => 2, Prec::BoolAnd => 3, Prec::Comp => 4,
        Prec::Term => 5, Prec::Factor => 6, Prec::Index => 7, Prec::Arrow => 8,
    }
}
impl PartialOrdSpecImpl for Prec {
    open spec fn obeys_partial_cmp_spec() -> bool { true }
    open spec fn partial_cmp_spec(&self, other: &Prec) -> Option<Ordering> {
        if rank(*self) < rank(*other) { Some(Ordering::Less) }
        else if rank(*self) > rank(*other) { Some(Ordering::Greater) }
        else { Some(Ordering::Equal) }
    }
}
pub trait Next: Sized { fn next(&self) -> Self; }
impl Next for Prec {
    fn next(&self) -> (r: Self)
        ensures rank(r) == if rank(*self) < 8 { rank(*self) + 1 } else { 8 }
    {
        match self {
            Prec::No => Prec::Assert, Prec::Assert => Prec::BoolOr, Prec::BoolOr => Prec::BoolAnd,
            Prec::BoolAnd => Prec::Comp, Prec::Comp => Prec::Term, Prec::Term => Prec::Factor,
            Prec::Factor => Prec::Index, Prec::Index => Prec::Arrow, Prec::Arrow => Prec::Arrow,
        }
    }
}

pub enum ComparisonKind { Equals, NotEquals, Greater, GreaterEqual, Less, LessEqual }

#[verifier::external_body]
pub struct Opaque { x: usize }

pub enum AssignableKind {
    Read(Opaque),
    Call(Box<Assignable>, Vec<Expression>),
    Expression(Box<Expression>),
}
pub struct Assignable { pub span: Span, pub kind: AssignableKind }

pub enum ExpressionKind {
    Get(Assignable),
    Add(Box<Expression>, Box<Expression>),
    Sub(Box<Expression>, Box<Expression>),
    Mul(Box<Expression>, Box<Expression>),
    Div(Box<Expression>, Box<Expression>),
    Neg(Box<Expression>),
    Comparison(Box<Expression>, ComparisonKind, Box<Expression>),
    AssertEq(Box<Expression>, Box<Expression>),
    And(Box<Expression>, Box<Expression>),
    Or(Box<Expression>, Box<Expression>),
    Not(Box<Expression>),
    Parenthesis(Box<Expression>),
    Tuple(Vec<Expression>),
    Float(f64),
    Int(i64),
    Str(String),
    Bool(bool),
    Nil,
}
pub struct Expression { pub span: Span, pub ty: Option<usize>, pub kind: ExpressionKind }
impl Clone for Expression {
    #[verifier::external_body]
    fn clone(&self) -> (r: Self) ensures r == *self { unimplemented!() }
}
impl Expression {
    pub fn new(span: Span, kind: ExpressionKind) -> (r: Self)
        ensures r.span == span, r.kind == kind, r.ty is None
    {
        Self { span, ty: None, kind }
    }
}


pub open spec fn binop_rank(t: Token) -> int {
    match t {
        Token::AssertEqual => 1,
        Token::Or => 2,
        Token::And => 3,
        Token::EqualEqual | Token::NotEqual | Token::Greater | Token::GreaterEqual | Token::Less | Token::LessEqual => 4,
        Token::Plus | Token::Minus => 5,
        Token::Star | Token::Slash => 6,
        _ => -1,
    }
}
pub open spec fn top_rank(e: Expression) -> int {
    match e.kind {
        ExpressionKind::AssertEq(_, _) => 1,
        ExpressionKind::Or(_, _) => 2,
        ExpressionKind::And(_, _) => 3,
        ExpressionKind::Comparison(_, _, _) => 4,
        ExpressionKind::Add(_, _) | ExpressionKind::Sub(_, _) => 5,
        ExpressionKind::Mul(_, _) | ExpressionKind::Div(_, _) => 6,
        _ => 100,
    }
}
pub open spec fn wf(e: Expression) -> bool decreases e {
    match e.kind {
        ExpressionKind::AssertEq(l, r) | ExpressionKind::Or(l, r) | ExpressionKind::And(l, r)
        | ExpressionKind::Add(l, r) | ExpressionKind::Sub(l, r) | ExpressionKind::Mul(l, r) | ExpressionKind::Div(l, r)
          => wf(*l) && wf(*r) && top_rank(*l) >= top_rank(e) && top_rank(*r) > top_rank(e),
        ExpressionKind::Comparison(l, _, r)
          => wf(*l) && wf(*r) && top_rank(*l) >= top_rank(e) && top_rank(*r) > top_rank(e),
        ExpressionKind::Neg(x) | ExpressionKind::Not(x) => wf(*x) && top_rank(*x) >= 6,
        _ => true,
    }
}
pub open spec fn node_matches(op: Token, e: Expression, lhs: Expression) -> bool {
    match op {
        Token::Plus => e.kind is Add && *e.kind->Add_0 == lhs,
        Token::Minus => e.kind is Sub && *e.kind->Sub_0 == lhs,
        Token::Star => e.kind is Mul && *e.kind->Mul_0 == lhs,
        Token::Slash => e.kind is Div && *e.kind->Div_0 == lhs,
        Token::And => e.kind is And && *e.kind->And_0 == lhs,
        Token::Or => e.kind is Or && *e.kind->Or_0 == lhs,
        Token::AssertEqual => e.kind is AssertEq && *e.kind->AssertEq_0 == lhs,
        Token::EqualEqual => e.kind is Comparison && *e.kind->Comparison_0 == lhs && e.kind->Comparison_1 is Equals,
        Token::NotEqual => e.kind is Comparison && *e.kind->Comparison_0 == lhs && e.kind->Comparison_1 is NotEquals,
        Token::Greater => e.kind is Comparison && *e.kind->Comparison_0 == lhs && e.kind->Comparison_1 is Greater,
        Token::GreaterEqual => e.kind is Comparison && *e.kind->Comparison_0 == lhs && e.kind->Comparison_1 is GreaterEqual,
        Token::Less => e.kind is Comparison && *e.kind->Comparison_0 == lhs && e.kind->Comparison_1 is Less,
        Token::LessEqual => e.kind is Comparison && *e.kind->Comparison_0 == lhs && e.kind->Comparison_1 is LessEqual,
        _ => true,
    }
}

pub struct Error { pub span: Span }

type ParseResult<'t, T> = Result<(Context<'t>, T), (Context<'t>, Vec<Error>)>;

#[derive(Copy, Clone)]
pub struct Context<'a> {
    pub skip_newlines: bool,
    last_statement: usize,
    pub tokens: &'a [Token],
    pub spans: &'a [Span],
    curr: usize,
    pub file_id: usize,
}

impl<'a> Context<'a> {
    #[verifier::external_body]
    fn span(&self) -> Span { unimplemented!() }
    #[verifier::external_body]
    fn skip(&self, n: usize) -> Self { unimplemented!() }
    #[verifier::external_body]
    fn prev(&self) -> Self { unimplemented!() }
    pub uninterp spec fn tok(&self) -> Token;
    #[verifier::external_body]
    fn token(&self) -> (r: &T) ensures *r == self.tok() { unimplemented!() }
    #[verifier::external_body]
    fn eat(&self) -> (r: (&T, Span, Self)) ensures *r.0 == self.tok() { unimplemented!() }
}

#[verifier::external_body]
fn opaque_errs(span: Span) -> Vec<Error> { unimplemented!() }

macro_rules! raise_syntax_error {
    ($ctx:expr, $( $msg:expr ),* ) => {
        return Err(($ctx.skip(1), opaque_errs($ctx.span())))
    };
}

#[verifier::external_body]
fn prefix<'t>(ctx: Context<'t>) -> (r: ParseResult<'t, Expression>) ensures r is Ok ==> wf(r->Ok_0.1) && top_rank(r->Ok_0.1) == 100 { unimplemented!() }
#[verifier::external_body]
fn arrow_call<'t>(ctx: Context<'t>, lhs: &Expression) -> (r: ParseResult<'t, Expression>) ensures r is Ok ==> wf(r->Ok_0.1) && top_rank(r->Ok_0.1) == 100 { unimplemented!() }
#[verifier::external_body]
fn sub_assignable<'t>(ctx: Context<'t>, assignable: Assignable) -> ParseResult<'t, Assignable> { unimplemented!() }

#[verifier::exec_allows_no_decreases_clause]
fn parse_precedence<'t>(ctx: Context<'t>, prec: Prec) -> (r: ParseResult<'t, Expression>)
    ensures r is Ok ==> wf(r->Ok_0.1) && top_rank(r->Ok_0.1) >= rank(prec)
        && binop_rank(r->Ok_0.0.tok()) < rank(prec)
        && binop_rank(r->Ok_0.0.tok()) <= top_rank(r->Ok_0.1)
{
    // Initial value, e.g. a number value, assignable, ...
    let (mut ctx, mut expr) = prefix(ctx)?;
    while prec <= precedence(ctx.token())
        invariant wf(expr), top_rank(expr) >= rank(prec), binop_rank(ctx.tok()) <= top_rank(expr),
        ensures binop_rank(ctx.tok()) < rank(prec),
    {
        if !valid_infix(ctx) {
            break;
        }
        let (ctx_, _expr) = infix(ctx, &expr)?;
        // assign to outer
        ctx = ctx_;
        expr = _expr;
    }
    Ok((ctx, expr))
}

fn precedence(token: &T) -> (r: Prec)
    ensures binop_rank(*token) >= 0 ==> rank(r) == binop_rank(*token),
            binop_rank(*token) < 0 ==> (rank(r) == 0 || rank(r) >= 7),
{
    use Prec;

    match token {
        T::LeftBracket | T::Dot | T::LeftParen => Prec::Index,

        T::Star | T::Slash => Prec::Factor,

        T::Minus | T::Plus => Prec::Term,

        T::EqualEqual
        | T::Greater
        | T::GreaterEqual
        | T::Less
        | T::LessEqual
        | T::NotEqual => Prec::Comp,

        T::And => Prec::BoolAnd,
        T::Or => Prec::BoolOr,

        T::AssertEqual => Prec::Assert,

        T::Arrow => Prec::Arrow,

        _ => Prec::No,
    }
}

#[verifier::exec_allows_no_decreases_clause]
fn unary<'t>(ctx: Context<'t>) -> (r: ParseResult<'t, Expression>)
    ensures r is Ok ==> wf(r->Ok_0.1) && top_rank(r->Ok_0.1) == 100
{
    use ExpressionKind::{Neg, Not};

    let (op, span, ctx) = ctx.eat();
    let (ctx, expr) = parse_precedence(ctx, Prec::Factor)?;
    let expr = Box::new(expr);

    let kind = match op {
        T::Minus => Neg(expr),
        T::Not => Not(expr),

        _ => {
            raise_syntax_error!(ctx, "Invalid unary operator");
        }
    };
    Ok((ctx, Expression::new(span, kind)))
}

fn valid_infix<'t>(ctx: Context<'t>) -> (r: bool)
    ensures binop_rank(ctx.tok()) >= 0 ==> r
{
    matches!(
        ctx.token(),
        T::Plus
            | T::Minus
            | T::Star
            | T::Slash
            | T::EqualEqual
            | T::NotEqual
            | T::Greater
            | T::GreaterEqual
            | T::Less
            | T::LessEqual
            | T::And
            | T::Or
            | T::AssertEqual
            | T::Arrow
            | T::Prime
            | T::LeftParen
            | T::LeftBracket
            | T::Dot
    )
}

#[verifier::exec_allows_no_decreases_clause]
fn infix<'t>(ctx: Context<'t>, lhs: &Expression) -> (r: ParseResult<'t, Expression>)
    requires wf(*lhs), binop_rank(ctx.tok()) <= top_rank(*lhs),
    ensures r is Ok ==> wf(r->Ok_0.1)
        && binop_rank(r->Ok_0.0.tok()) <= top_rank(r->Ok_0.1)
        && (binop_rank(ctx.tok()) >= 0 ==> top_rank(r->Ok_0.1) == binop_rank(ctx.tok()))
        && (binop_rank(ctx.tok()) < 0 ==> top_rank(r->Ok_0.1) == 100)
        && node_matches(ctx.tok(), r->Ok_0.1, *lhs)
{
    use ComparisonKind::*;
    use ExpressionKind::*;

    // If there is no precedence it's the start of an expression.
    // All valid operators have a precedence value that is differnt
    // from `Prec::no`.
    match (ctx.token(), precedence(ctx.skip(1).token())) {
        // The cool arrow syntax. For example: `a->b(2)` compiles to `b(a, 2)`.
        // #NotLikeOtherOperators
        (T::Arrow, _) => {
            return arrow_call(ctx, lhs);
        }

        (T::Prime | T::LeftParen | T::LeftBracket | T::Dot, _) => {
            let (ctx, ass) = sub_assignable(
                ctx,
                Assignable {
                    span: ctx.span(),
                    kind: AssignableKind::Expression(Box::new(lhs.clone())),
                },
            )?;
            return Ok((ctx, Expression::new(ctx.span(), Get(ass))));
        }
        _ => {}
    }

    // Parse an operator and a following expression
    // until we reach a token with higher precedence.
    //
    // The operator has to be checked before - this
    // removes an O(x^n).
    let (op, span, ctx) = ctx.eat();

    match op {
        T::Plus
        | T::Minus
        | T::Star
        | T::Slash
        | T::EqualEqual
        | T::NotEqual
        | T::Greater
        | T::GreaterEqual
        | T::Less
        | T::LessEqual
        | T::And
        | T::Or
        | T::AssertEqual => {}

        // Unknown infix operator.
        _ => {
            raise_syntax_error!(ctx.prev(), "Not a valid infix operator");
        }
    };

    let (ctx, rhs) = parse_precedence(ctx, precedence(op).next())?;

    // Left and right of the operator.
    let lhs = Box::new(lhs.clone());
    let rhs = Box::new(rhs);

    // Which expression kind to emit depends on the token.
    let kind = match op {
        // Simple arithmetic.
        T::Plus => Add(lhs, rhs),
        T::Minus => Sub(lhs, rhs),
        T::Star => Mul(lhs, rhs),
        T::Slash => Div(lhs, rhs),

        // Comparisons
        T::EqualEqual => Comparison(lhs, Equals, rhs),
        T::NotEqual => Comparison(lhs, NotEquals, rhs),
        T::Greater => Comparison(lhs, Greater, rhs),
        T::GreaterEqual => Comparison(lhs, GreaterEqual, rhs),
        T::Less => Comparison(lhs, Less, rhs),
        T::LessEqual => Comparison(lhs, LessEqual, rhs),

        // Boolean operators.
        T::And => And(lhs, rhs),
        T::Or => Or(lhs, rhs),

        T::AssertEqual => AssertEq(lhs, rhs),

        // Unknown infix operator.
        _ => {
            unreachable!();
        }
    };

    Ok((ctx, Expression::new(span, kind)))
}

} // verus!
fn main() {}
