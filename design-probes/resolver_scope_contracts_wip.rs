
use vstd::prelude::*;
pub mod ext {
    #[derive(Clone, PartialEq, Eq, Hash, PartialOrd, Ord, Debug)]
    pub struct Type { x: usize }
    #[derive(Clone, PartialEq, Eq, Hash, PartialOrd, Debug)]
    pub struct FileOrLib { x: usize }
}
use std::collections::{BTreeMap, HashMap};
verus! {

pub mod sylt_tokenizer_m {
    use super::*;
    #[derive(Clone, Copy, PartialEq, Eq, Hash)]
    pub struct Span { pub file_id: usize, pub line_start: usize, pub line_end: usize, pub col_start: usize, pub col_end: usize }
}
pub mod sylt_common {
    use super::*;
    pub use crate::ext::{Type, FileOrLib};
    #[verifier::external_type_specification]
    #[verifier::external_body]
    pub struct ExType(Type);
    #[verifier::external_type_specification]
    #[verifier::external_body]
    pub struct ExFileOrLib(FileOrLib);
    pub assume_specification [ <Type as Clone>::clone ] (e: &Type) -> (r: Type) ensures r == *e;
    pub assume_specification [ <FileOrLib as Clone>::clone ] (e: &FileOrLib) -> (r: FileOrLib) ensures r == *e;
    #[derive(Clone, Copy, PartialEq, Eq)]
    pub struct TyID(pub usize);
    pub struct Error { pub span: super::sylt_tokenizer_m::Span }
}
pub mod sylt_parser {
    use super::*;
    pub use super::sylt_tokenizer_m::Span;
    use super::sylt_common::{FileOrLib, TyID, Type as RuntimeType};
    pub mod expression { pub use super::{CaseBranch, IfBranch, ComparisonKind}; }
    type Alias = Identifier;
#[derive(Copy, Clone, PartialEq, Eq, PartialOrd, Ord, Hash)]
pub enum VarKind {
    Const,
    Mutable,
}

#[derive(Copy, Clone, PartialEq)]
pub enum Op {
    Nop,
    Add,
    Sub,
    Mul,
    Div,
}

impl Clone for Identifier { #[verifier::external_body] fn clone(&self) -> (r: Self) ensures r == *self { unimplemented!() } }
#[derive(Eq, Hash)]
pub struct Identifier {
    pub span: Span,
    pub name: String,
}

impl Clone for AssignableKind { #[verifier::external_body] fn clone(&self) -> (r: Self) ensures r == *self { unimplemented!() } }
pub enum AssignableKind {
    Read(Identifier),
    Variant {
        enum_ass: Box<Assignable>,
        variant: Identifier,
        value: Box<Expression>,
    },
    Call(Box<Assignable>, Vec<Expression>),
    ArrowCall(Box<Expression>, Box<Assignable>, Vec<Expression>),
    Access(Box<Assignable>, Identifier),
    Index(Box<Assignable>, Box<Expression>),
    Expression(Box<Expression>),
}

impl Clone for Assignable { #[verifier::external_body] fn clone(&self) -> (r: Self) ensures r == *self { unimplemented!() } }
pub struct Assignable {
    pub span: Span,
    pub kind: AssignableKind,
}

impl Clone for TypeAssignableKind { #[verifier::external_body] fn clone(&self) -> (r: Self) ensures r == *self { unimplemented!() } }
pub enum TypeAssignableKind {
    Read(Identifier),
    Access(Box<TypeAssignable>, Identifier),
}

impl Clone for TypeAssignable { #[verifier::external_body] fn clone(&self) -> (r: Self) ensures r == *self { unimplemented!() } }
pub struct TypeAssignable {
    pub span: Span,
    pub kind: TypeAssignableKind,
}

impl Clone for TypeKind { #[verifier::external_body] fn clone(&self) -> (r: Self) ensures r == *self { unimplemented!() } }
pub enum TypeKind {
    Implied,
    Resolved(RuntimeType),
    UserDefined(TypeAssignable, Vec<Type>),
    Fn {
        constraints: BTreeMap<String, Vec<TypeConstraint>>,
        params: Vec<Type>,
        ret: Box<Type>,
        is_pure: bool,
    },
    Tuple(Vec<Type>),
    List(Box<Type>),
    Generic(String),
    Grouping(Box<Type>),
}

impl Clone for Type { #[verifier::external_body] fn clone(&self) -> (r: Self) ensures r == *self { unimplemented!() } }
pub struct Type {
    pub span: Span,
    pub kind: TypeKind,
}

impl Clone for TypeConstraint { #[verifier::external_body] fn clone(&self) -> (r: Self) ensures r == *self { unimplemented!() } }
pub struct TypeConstraint {
    pub name: Identifier,
    pub args: Vec<Identifier>,
}

impl Clone for ComparisonKind { #[verifier::external_body] fn clone(&self) -> (r: Self) ensures r == *self { unimplemented!() } }
pub enum ComparisonKind {
    Equals,
    NotEquals,
    Greater,
    GreaterEqual,
    Less,
    LessEqual,
}

impl Clone for CaseBranch { #[verifier::external_body] fn clone(&self) -> (r: Self) ensures r == *self { unimplemented!() } }
pub struct CaseBranch {
    pub pattern: Identifier,
    pub variable: Option<Identifier>,
    pub body: Vec<Statement>,
}

impl Clone for IfBranch { #[verifier::external_body] fn clone(&self) -> (r: Self) ensures r == *self { unimplemented!() } }
pub struct IfBranch {
    pub condition: Option<Expression>,
    pub body: Vec<Statement>,
    pub span: Span,
}

impl Clone for ExpressionKind { #[verifier::external_body] fn clone(&self) -> (r: Self) ensures r == *self { unimplemented!() } }
pub enum ExpressionKind {
    Get(Assignable),

    Add(Box<Expression>, Box<Expression>),
    Sub(Box<Expression>, Box<Expression>),
    Mul(Box<Expression>, Box<Expression>),
    Div(Box<Expression>, Box<Expression>),
    Neg(Box<Expression>),

    Comparison(Box<Expression>, ComparisonKind, Box<Expression>),

    AssertEq(Box<Expression>, Box<Expression>),

    And(Box<Expression>, Box<Expression>),
    Or(Box<Expression>, Box<Expression>),
    Not(Box<Expression>),

    Parenthesis(Box<Expression>),

    If(Vec<IfBranch>),

    Case {
        to_match: Box<Expression>,
        branches: Vec<CaseBranch>,
        fall_through: Option<Vec<Statement>>,
    },

    Function {
        name: String,
        params: Vec<(Identifier, Type)>,
        ret: Type,

        body: Vec<Statement>,
        pure: bool,
    },
    Blob {
        blob: TypeAssignable,
        fields: Vec<(String, Expression)>, // Keep calling order
    },
    Tuple(Vec<Expression>),
    List(Vec<Expression>),

    Float(f64),
    Int(i64),
    Str(String),
    Bool(bool),
    Nil,
}

impl Clone for Expression { #[verifier::external_body] fn clone(&self) -> (r: Self) ensures r == *self { unimplemented!() } }
pub struct Expression {
    pub span: Span,
    pub ty: Option<TyID>,
    pub kind: ExpressionKind,
}

impl Clone for NameIdentifier { #[verifier::external_body] fn clone(&self) -> (r: Self) ensures r == *self { unimplemented!() } }
pub enum NameIdentifier {
    Implicit(Identifier),
    Alias(Identifier),
}

impl Clone for StatementKind { #[verifier::external_body] fn clone(&self) -> (r: Self) ensures r == *self { unimplemented!() } }
pub enum StatementKind {
    Use {
        path: Identifier,
        name: NameIdentifier,
        file: FileOrLib,
    },

    FromUse {
        path: Identifier,
        imports: Vec<(Identifier, Option<Alias>)>,
        file: FileOrLib,
    },

    Blob {
        name: Identifier,
        variables: Vec<Identifier>,
        fields: HashMap<Identifier, Type>,
        external: bool,
    },

    Enum {
        name: Identifier,
        variables: Vec<Identifier>,
        variants: HashMap<Identifier, Type>,
    },

    Assignment {
        kind: Op,
        target: Assignable,
        value: Expression,
    },

    Definition {
        ident: Identifier,
        kind: VarKind,
        ty: Type,
        value: Expression,
    },

    ExternalDefinition {
        ident: Identifier,
        kind: VarKind,
        ty: Type,
    },

    Loop {
        condition: Expression,
        body: Box<Statement>,
    },

    Break,

    Continue,

    Ret {
        value: Option<Expression>,
    },

    Block {
        statements: Vec<Statement>,
    },

    StatementExpression {
        value: Expression,
    },

    Unreachable,

    EmptyStatement,
}

impl Clone for Statement { #[verifier::external_body] fn clone(&self) -> (r: Self) ensures r == *self { unimplemented!() } }
pub struct Statement {
    pub span: Span,
    pub kind: StatementKind,
    pub comments: Vec<String>,
}

impl PartialOrd for Identifier {
    #[verifier::external_body]
    fn partial_cmp(&self, other: &Self) -> Option<std::cmp::Ordering> {
        Some(self.name.cmp(&other.name))
    }
}

impl Ord for Identifier {
    #[verifier::external_body]
    fn cmp(&self, other: &Self) -> std::cmp::Ordering {
        self.name.cmp(&other.name)
    }
}

impl PartialEq for Identifier {
    #[verifier::external_body]
    fn eq(&self, other: &Self) -> bool {
        self.name == other.name
    }
}








}

use sylt_common::Type as RuntimeType;
use sylt_common::{Error, FileOrLib};
use sylt_parser::{
    expression::CaseBranch as ParserCaseBranch, expression::IfBranch as ParserIfBranch,
    Assignable as ParserAssignable, Expression as ParserExpression, Identifier, Span,
    Statement as ParserStatement, Type as ParserType, TypeAssignable as ParserTypeAssignable,
    TypeConstraint, VarKind,
};
type NamespaceID = usize;
type ResolveResult<T> = Result<T, Vec<Error>>;
type Ref = usize;

#[verifier::external_body]
fn opaque_error(span: Span) -> Error { unimplemented!() }
#[verifier::external_body]
fn opaque_string() -> String { unimplemented!() }
macro_rules! format { ($($t:tt)*) => { opaque_string() }; }
macro_rules! raise_resolution_error {
    ($self:expr, $span:expr, $( $msg:expr ),* ) => { return Err(vec![resolution_error!($self, $span, $( $msg ),*)]) };
}
macro_rules! resolution_error {
    ($self:expr, $span:expr, $( $msg:expr ),* ) => { opaque_error($span.clone()) };
}

impl Clone for BinOp { #[verifier::external_body] fn clone(&self) -> (r: Self) ensures r == *self { unimplemented!() } }
pub enum BinOp {
    // For assignment
    Nop,
    // Comp
    Equals,
    NotEquals,
    Greater,
    GreaterEqual,
    Less,
    LessEqual,
    // Misc
    AssertEq,
    // Mul
    Add,
    Sub,
    Mul,
    Div,
    // Bool
    And,
    Or,
}

impl Clone for UniOp { #[verifier::external_body] fn clone(&self) -> (r: Self) ensures r == *self { unimplemented!() } }
pub enum UniOp {
    Neg,
    Not,
}

impl Clone for Collection { #[verifier::external_body] fn clone(&self) -> (r: Self) ensures r == *self { unimplemented!() } }
pub enum Collection {
    Tuple,
    List,
}

impl Clone for IfBranch { #[verifier::external_body] fn clone(&self) -> (r: Self) ensures r == *self { unimplemented!() } }
pub struct IfBranch {
    pub condition: Option<Expression>,
    pub body: Vec<Statement>,
    pub span: Span,
}

impl Clone for CaseBranch { #[verifier::external_body] fn clone(&self) -> (r: Self) ensures r == *self { unimplemented!() } }
pub struct CaseBranch {
    pub pattern: Identifier,
    pub variable: Option<Ref>,
    pub body: Vec<Statement>,
    pub span: Span,
}

impl Clone for Expression { #[verifier::external_body] fn clone(&self) -> (r: Self) ensures r == *self { unimplemented!() } }
pub enum Expression {
    Read {
        var: Ref,
        span: Span,
    },
    Variant {
        ty: Ref,
        variant: String,
        value: Box<Expression>,
        span: Span,
    },
    Call {
        function: Box<Expression>,
        args: Vec<Expression>,
        span: Span,
    },
    BlobAccess {
        value: Box<Expression>,
        field: String,
        span: Span,
    },
    Index {
        value: Box<Expression>,
        index: Box<Expression>,
        span: Span,
    },

    BinOp {
        a: Box<Expression>,
        b: Box<Expression>,
        op: BinOp,
        span: Span,
    },
    UniOp {
        a: Box<Expression>,
        op: UniOp,
        span: Span,
    },

    If {
        branches: Vec<IfBranch>,
        span: Span,
    },
    Case {
        to_match: Box<Expression>,
        branches: Vec<CaseBranch>,
        fall_through: Option<Vec<Statement>>,
        span: Span,
    },
    Function {
        name: String,
        params: Vec<(String, Ref, Span, Type)>,
        ret: Type,

        body: Vec<Statement>,
        pure: bool,

        span: Span,
    },
    Blob {
        blob: Ref,
        fields: Vec<(String, Expression)>, // Keep calling order
        self_var: Ref,
        span: Span,
    },

    Collection {
        collection: Collection,
        values: Vec<Expression>,
        span: Span,
    },

    Float(f64, Span),
    Int(i64, Span),
    Str(String, Span),
    Bool(bool, Span),
    Nil(Span),
}

impl Clone for Type { #[verifier::external_body] fn clone(&self) -> (r: Self) ensures r == *self { unimplemented!() } }
pub enum Type {
    UserType(Ref, Vec<Type>, Span),
    Implied(Span),
    Resolved(RuntimeType, Span),
    Generic(String, Span),
    Tuple(Vec<Type>, Span),
    List(Box<Type>, Span),
    Fn {
        constraints: BTreeMap<String, Vec<TypeConstraint>>,
        params: Vec<Type>,
        ret: Box<Type>,
        is_pure: bool,
        span: Span,
    },
}

impl Clone for Statement { #[verifier::external_body] fn clone(&self) -> (r: Self) ensures r == *self { unimplemented!() } }
pub enum Statement {
    Assignment {
        op: BinOp,
        target: Expression,
        value: Expression,
        span: Span,
    },

    Blob {
        name: String,
        var: Ref,
        span: Span,
        variables: Vec<String>,
        fields: HashMap<String, (Span, Type)>,
        external: bool,
    },

    Enum {
        name: String,
        var: Ref,
        span: Span,
        variables: Vec<String>,
        variants: HashMap<String, (Span, Type)>,
    },

    Definition {
        name: String,
        var: Ref,
        kind: VarKind,
        ty: Type,
        value: Expression,
        span: Span,
    },

    ExternalDefinition {
        name: String,
        var: Ref,
        kind: VarKind,
        ty: Type,
        span: Span,
    },

    Loop {
        condition: Expression,
        body: Vec<Statement>, // TODO(ed): The parser-statement-loop should have a vector here.
        span: Span,
    },

    Break(Span),

    Continue(Span),

    Ret {
        value: Option<Expression>,
        span: Span,
    },

    Block {
        statements: Vec<Statement>,
        span: Span,
    },

    StatementExpression { value: Expression, span: Span },

    Unreachable(Span),
}

impl Clone for Var { #[verifier::external_body] fn clone(&self) -> (r: Self) ensures r == *self { unimplemented!() } }
pub struct Var {
    pub id: Ref,
    pub name: String,
    pub definition: Span,
    pub is_global: bool,
    pub kind: VarKind,
}

#[derive(Clone, PartialEq)]
enum Name {
    Name(Ref),
    Namespace(FileOrLib, Span),
}

struct Resolver {
    namespaces: HashMap<FileOrLib, HashMap<String, Name>>,
    stack: Vec<(String, Ref)>,
    variables: Vec<Var>,
    namespace_to_file: HashMap<NamespaceID, FileOrLib>,
    file_to_namespace: HashMap<FileOrLib, NamespaceID>,
}

#[verifier::external_body]
fn opaque_names(v: &Vec<Identifier>) -> Vec<String> { unimplemented!() }

pub open spec fn is_prefix<T>(a: Seq<T>, b: Seq<T>) -> bool { a.len() <= b.len() && b.subrange(0, a.len() as int) =~= a }

impl Resolver {
    #[verifier::external_body]
    fn opaque_fields(&self, f: &HashMap<Identifier, ParserType>) -> ResolveResult<HashMap<String, (Span, Type)>> { unimplemented!() }

    #[verifier::external_body]
    fn find_similar_name(&self, namespace_id: usize, name: &str) -> Option<(usize, String)> { unimplemented!() }
    #[verifier::external_body]
    fn add_help_no_span(&self, err: Error, msg: String) -> Error { unimplemented!() }
    #[verifier::external_body]
    fn namespace_list(&self, namespace_id: usize, assignable: &ParserAssignable) -> Option<usize> { unimplemented!() }
    #[verifier::external_body]
    fn ty(&self, ty: &ParserType) -> ResolveResult<Type> { unimplemented!() }
    #[verifier::external_body]
    fn ty_assignable(&self, ty_ass: &ParserTypeAssignable) -> ResolveResult<Type> { unimplemented!() }

    #[verifier::external_body]
    fn lookup_global(&self, namespace_id: usize, name: &str) -> Option<&Name> { unimplemented!() }

    fn lookup(&self, name: &str, span: Span) -> ResolveResult<Ref> {
        for (var_name, var_id) in self.stack.iter().rev() {
            if var_name == name {
                return Ok(*var_id);
            }
        }
        match self.lookup_global(span.file_id, name) {
            Some(Name::Name(var)) => Ok(*var),
            Some(Name::Namespace(..)) => Err(vec![resolution_error!(
                self,
                span,
                "When resolving the name {:?} - a namespace was found",
                name
            )]),
            None => {
                let err =
                    resolution_error!(self, span, "Failed to resolve {:?} - nothing matched", name);
                let err = match self.find_similar_name(span.file_id, name) {
                    Some((distance, name)) if distance < 8 => {
                        self.add_help_no_span(err, format!("Maybe you ment {:?}?", name))
                    }
                    _ => err,
                };

                Err(vec![err])
            }
        }
    }

    #[verifier::exec_allows_no_decreases_clause]
    #[verifier::loop_isolation(false)]
    fn assignable(&mut self, assignable: &ParserAssignable) -> (r: ResolveResult<Expression>)
        ensures r is Ok ==> final(self).stack@ == old(self).stack@, is_prefix(old(self).stack@, final(self).stack@),
    {
        use sylt_parser::AssignableKind as AK;
        use Expression as E;
        let span = assignable.span;
        Ok(match &assignable.kind {
            AK::Read(Identifier { name, span }) => {
                let var = self.lookup(name, *span)?;
                let span = *span;
                E::Read { var, span }
            }
            AK::Variant { enum_ass, variant, value } => {
                // Checking that this is a valid type, should be done in the typechecker
                let ty = if let E::Read { var, .. } = self.assignable(enum_ass)? {
                    var
                } else {
                    raise_resolution_error! {
                        self,
                        span,
                        "This is not ok TODO(ed)"
                    };
                };
                let value = Box::new(self.expression(value)?);
                E::Variant { ty, variant: variant.name.clone(), value, span }
            }
            AK::Call(function, parser_args) => {
                let function = Box::new(self.assignable(function)?);
                let mut args = Vec::new();
                for arg in parser_args.iter() 
            invariant self.stack@ == old(self).stack@,
        {
                    args.push(self.expression(arg)?);
                }
                E::Call { function, args, span }
            }
            AK::ArrowCall(extra_arg, function, parser_args) => {
                let extra_arg = self.expression(extra_arg)?;
                let function = Box::new(self.assignable(function)?);
                let mut args = vec![extra_arg];
                for arg in parser_args.iter() 
            invariant self.stack@ == old(self).stack@,
        {
                    args.push(self.expression(arg)?);
                }
                E::Call { function, args, span }
            }
            AK::Access(assignable, ident) => match self.namespace_list(span.file_id, assignable) {
                Some(ns) => {
                    let var = match self.lookup_global(ns, &ident.name) {
                        Some(Name::Name(var)) => *var,
                        Some(Name::Namespace(..)) => {
                            return Err(vec![resolution_error!(
                                self,
                                span,
                                "When resolving the name {:?} - a namespace was found",
                                ident.name
                            )])
                        }
                        None => {
                            return Err(vec![resolution_error!(
                                self,
                                span,
                                "Failed to resolve {:?} - nothing matched",
                                ident.name
                            )])
                        }
                    };
                    let span = ident.span;
                    E::Read { var, span }
                }
                None => {
                    let value = Box::new(self.assignable(assignable)?);
                    E::BlobAccess { value, field: ident.name.clone(), span: ident.span }
                }
            },
            AK::Index(assignable, index) => {
                let value = Box::new(self.assignable(assignable)?);
                let index = Box::new(self.expression(index)?);
                E::Index { value, index, span }
            }
            AK::Expression(value) => self.expression(value)?,
        })
    }

    #[verifier::exec_allows_no_decreases_clause]
    #[verifier::loop_isolation(false)]
    fn collection(
        &mut self,
        collection: Collection,
        expr: &[ParserExpression],
        span: Span,
    ) -> (r: ResolveResult<Expression>)
        ensures r is Ok ==> final(self).stack@ == old(self).stack@, is_prefix(old(self).stack@, final(self).stack@),
    {
        let mut values = Vec::new();
        for e in expr.iter() 
            invariant self.stack@ == old(self).stack@,
        {
            values.push(self.expression(e)?);
        }
        Ok(Expression::Collection { collection, values, span })
    }

    #[verifier::exec_allows_no_decreases_clause]
    #[verifier::loop_isolation(false)]
    fn binop(
        &mut self,
        op: BinOp,
        a: &ParserExpression,
        b: &ParserExpression,
        span: Span,
    ) -> (r: ResolveResult<Expression>)
        ensures r is Ok ==> final(self).stack@ == old(self).stack@, is_prefix(old(self).stack@, final(self).stack@),
    {
        let a = Box::new(self.expression(a)?);
        let b = Box::new(self.expression(b)?);
        Ok(Expression::BinOp { op, a, b, span })
    }

    #[verifier::exec_allows_no_decreases_clause]
    #[verifier::loop_isolation(false)]
    fn uniop(&mut self, op: UniOp, a: &ParserExpression, span: Span) -> (r: ResolveResult<Expression>)
        ensures r is Ok ==> final(self).stack@ == old(self).stack@, is_prefix(old(self).stack@, final(self).stack@),
    {
        let a = Box::new(self.expression(a)?);
        Ok(Expression::UniOp { op, a, span })
    }

    #[verifier::exec_allows_no_decreases_clause]
    #[verifier::loop_isolation(false)]
    fn if_branch(&mut self, branch: &ParserIfBranch) -> (r: ResolveResult<IfBranch>)
        ensures r is Ok ==> final(self).stack@ == old(self).stack@, is_prefix(old(self).stack@, final(self).stack@),
    {
        let condition = match &branch.condition {
            Some(cond) => Some(self.expression(&cond)?),
            None => None,
        };
        let body = self.block(&branch.body)?;
        let span = branch.span;
        Ok(IfBranch { condition, body, span })
    }

    #[verifier::exec_allows_no_decreases_clause]
    #[verifier::loop_isolation(false)]
    fn case_branch(&mut self, branch: &ParserCaseBranch) -> (r: ResolveResult<CaseBranch>)
        ensures r is Ok ==> final(self).stack@ == old(self).stack@, is_prefix(old(self).stack@, final(self).stack@),
    {
        let variable = &match branch.variable.as_ref() { Some(var) => Some(self.push_var(var, VarKind::Const)), None => None };
        let mut body = Vec::new();
        for stmt in branch.body.iter() 
            invariant is_prefix(old(self).stack@, self.stack@),
        {
            match self.statement(stmt)? {
                None => {}
                Some(stmt) => body.push(stmt),
            }
        }
        Ok(CaseBranch {
            pattern: branch.pattern.clone(),
            variable: *variable,
            body,
            span: branch.pattern.span,
        })
    }

    #[verifier::exec_allows_no_decreases_clause]
    #[verifier::loop_isolation(false)]
    fn block(&mut self, parser_stmts: &[ParserStatement]) -> (r: ResolveResult<Vec<Statement>>)
        ensures is_prefix(old(self).stack@, final(self).stack@),
    {
        let mut stmts = Vec::new();
        let mut errs = Vec::new();
        for stmt in parser_stmts.iter() 
            invariant is_prefix(old(self).stack@, self.stack@),
        {
            match self.statement(stmt) {
                Ok(Some(stmt)) => stmts.push(stmt),
                Ok(None) => {}
                Err(mut es) => errs.append(&mut es),
            }
        }
        if errs.is_empty() {
            Ok(stmts)
        } else {
            Err(errs)
        }
    }

    #[verifier::exec_allows_no_decreases_clause]
    #[verifier::loop_isolation(false)]
    fn expression(&mut self, expr: &ParserExpression) -> (r: ResolveResult<Expression>)
        ensures r is Ok ==> final(self).stack@ == old(self).stack@, is_prefix(old(self).stack@, final(self).stack@),
    {
        use sylt_parser::expression::ComparisonKind as CK;
        use sylt_parser::ExpressionKind as EK;
        use Expression as E;
        let span = expr.span;

        Ok(match &expr.kind {
            EK::Get(g) => self.assignable(g)?,
            EK::Add(a, b) => self.binop(BinOp::Add, a, b, span)?,
            EK::Sub(a, b) => self.binop(BinOp::Sub, a, b, span)?,
            EK::Mul(a, b) => self.binop(BinOp::Mul, a, b, span)?,
            EK::Div(a, b) => self.binop(BinOp::Div, a, b, span)?,
            EK::Neg(a) => self.uniop(UniOp::Neg, a, span)?,
            EK::Comparison(a, kind, b) => match kind {
                CK::Equals => self.binop(BinOp::Equals, a, b, span)?,
                CK::NotEquals => self.binop(BinOp::NotEquals, a, b, span)?,
                CK::Greater => self.binop(BinOp::Greater, a, b, span)?,
                CK::GreaterEqual => self.binop(BinOp::GreaterEqual, a, b, span)?,
                CK::Less => self.binop(BinOp::Less, a, b, span)?,
                CK::LessEqual => self.binop(BinOp::LessEqual, a, b, span)?,
            },
            EK::AssertEq(a, b) => self.binop(BinOp::AssertEq, a, b, span)?,
            EK::And(a, b) => self.binop(BinOp::And, a, b, span)?,
            EK::Or(a, b) => self.binop(BinOp::Or, a, b, span)?,
            EK::Not(a) => self.uniop(UniOp::Not, a, span)?,
            EK::Parenthesis(x) => self.expression(x)?,
            EK::If(parser_branches) => {
                let mut branches = Vec::new();
                for branch in parser_branches.iter() {
                    branches.push(self.if_branch(branch)?);
                }
                E::If { branches, span }
            }
            EK::Case { to_match, branches: parser_branches, fall_through } => {
                let to_match = Box::new(self.expression(to_match)?);
                let mut branches = Vec::new();
                for branch in parser_branches.iter() {
                    branches.push(self.case_branch(branch)?);
                }
                let fall_through = match fall_through {
                    Some(x) => Some(self.block(x)?),
                    None => None,
                };
                E::Case { to_match, branches, fall_through, span }
            }
            EK::Function { name, params: parser_params, ret, body, pure } => {
                let ss = self.stack.len();
                let name = name.clone();
                let mut params = Vec::new();
                for (n, t) in parser_params.iter() {
                    let var = self.push_var(n, VarKind::Const);
                    params.push((n.name.clone(), var, n.span, self.ty(t)?));
                }
                let ret = self.ty(ret)?;
                let body = self.block(body)?;
                self.stack.truncate(ss);
                E::Function { name, params, ret, body, pure: *pure, span }
            }
            EK::Blob { blob, fields: parser_fields } => {
                let blob = match self.ty_assignable(blob)? {
                    Type::UserType(blob, ..) => blob,
                    _ => unreachable!("Blobs are always userdefined!"),
                };
                let mut fields = Vec::new();
                let self_var = self.new_var(
                    &Identifier { name: "self".to_string(), span },
                    VarKind::Mutable,
                );
                for (name, field) in parser_fields.iter() {
                    let ss = self.stack.len();
                    if matches!(field.kind, EK::Function { .. }) {
                        self.stack.push(("self".to_string(), self_var));
                    }
                    fields.push((name.clone(), self.expression(field)?));
                    self.stack.truncate(ss);
                }
                E::Blob { blob, fields, self_var, span }
            }
            EK::Tuple(values) => self.collection(Collection::Tuple, &values, span)?,
            EK::List(values) => self.collection(Collection::List, &values, span)?,
            EK::Float(f) => E::Float(*f, span),
            EK::Int(i) => E::Int(*i, span),
            EK::Str(s) => E::Str(s.clone(), span),
            EK::Bool(b) => E::Bool(*b, span),
            EK::Nil => E::Nil(span),
        })
    }

    #[verifier::exec_allows_no_decreases_clause]
    #[verifier::loop_isolation(false)]
    fn statement(&mut self, stmt: &ParserStatement) -> (r: ResolveResult<Option<Statement>>)
        ensures is_prefix(old(self).stack@, final(self).stack@),
        r is Ok && !(stmt.kind is Definition) && !(stmt.kind is Loop) ==> final(self).stack@ == old(self).stack@,
    {
        use sylt_parser::StatementKind as SK;
        use Statement as S;
        let span = stmt.span;
        Ok(match &stmt.kind {
            // These are already handled
            SK::EmptyStatement | SK::FromUse { .. } | SK::Use { .. } => None,

            SK::Blob { name, variables, fields, external } => {
                let var = self.lookup(&name.name, span)?;
                Some(S::Blob {
                    name: name.name.clone(),
                    var,
                    span,
                    variables: opaque_names(variables),
                    fields: self.opaque_fields(fields)?,
                    external: *external,
                })
            }
            SK::Enum { name, variables, variants } => {
                let var = self.lookup(&name.name, span)?;
                Some(S::Enum {
                    name: name.name.clone(),
                    var,
                    span,
                    variables: opaque_names(variables),
                    variants: self.opaque_fields(variants)?,
                })
            }

            SK::ExternalDefinition { ident, kind, ty } => Some(S::ExternalDefinition {
                name: ident.name.clone(),
                var: self.lookup(&ident.name, span)?,
                kind: *kind,
                span: ident.span,
                ty: self.ty(ty)?,
            }),

            SK::Definition { ident, kind, ty, value } => {
                let (value, var) = if self.stack.is_empty() {
                    // Outer statement - it's a global so just evaluate the value and push a dummy
                    // value on the stack.
                    let fake_ident = Identifier {
                        name: format!("== STACK BEGIN {:?} ==", ident.name),
                        span: ident.span,
                    };
                    self.push_var(&fake_ident, *kind);
                    let value = self.expression(value)?;
                    // Clear the stack imediately
                    self.stack.clear();
                    let var = self.lookup(&ident.name, span)?;
                    (value, var)
                } else if matches!(value.kind, sylt_parser::ExpressionKind::Function { .. }) {
                    // Function, push the var before!
                    let var = self.push_var(ident, *kind);
                    let value = self.expression(value)?;
                    (value, var)
                } else {
                    // Value, push the var after!
                    let value_maybe = self.expression(value);
                    let var = self.push_var(ident, *kind);
                    (value_maybe?, var)
                };
                Some(S::Definition {
                    span: ident.span,
                    name: ident.name.clone(),
                    var,
                    kind: *kind,
                    ty: self.ty(ty)?,
                    value,
                })
            }

            SK::Assignment { kind, target, value } => {
                use sylt_parser::Op;
                let op = match kind {
                    Op::Nop => BinOp::Nop,
                    Op::Add => BinOp::Add,
                    Op::Sub => BinOp::Sub,
                    Op::Mul => BinOp::Mul,
                    Op::Div => BinOp::Div,
                };
                let value = self.expression(value)?;
                let target = self.assignable(target)?;
                Some(S::Assignment { op, target, value, span })
            }
            SK::Loop { condition, body } => {
                let condition = self.expression(condition)?;
                let body = match self.statement(body)? {
                    Some(body) => vec![body],
                    None => Vec::new(),
                };
                Some(S::Loop { condition, body, span })
            }
            SK::Break => Some(S::Break(span)),
            SK::Continue => Some(S::Continue(span)),
            SK::Ret { value } => Some(S::Ret {
                value: match value {
                    Some(value) => Some(self.expression(value)?),
                    None => None,
                },
                span,
            }),
            SK::Block { statements } => {
                let ss = self.stack.len();
                let statements = self.block(statements)?;
                self.stack.truncate(ss);
                Some(S::Block { statements, span })
            }
            SK::StatementExpression { value } => {
                Some(S::StatementExpression { value: self.expression(value)?, span })
            }
            SK::Unreachable => Some(S::Unreachable(span)),
        })
    }

    fn new_var(&mut self, ident: &Identifier, kind: VarKind) -> (r: Ref)
        ensures final(self).stack@ == old(self).stack@,
    {
        let id = self.variables.len();

        self.variables.push(Var {
            id,
            name: ident.name.clone(),
            definition: ident.span,
            kind,
            is_global: false,
        });
        id
    }

    fn new_global(&mut self, ident: &Identifier, kind: VarKind) -> Ref {
        let id = self.variables.len();

        self.variables.push(Var {
            id,
            name: ident.name.clone(),
            definition: ident.span,
            kind,
            is_global: true,
        });
        id
    }

    fn push_var(&mut self, ident: &Identifier, kind: VarKind) -> (r: usize)
        ensures final(self).stack@.len() == old(self).stack@.len() + 1, is_prefix(old(self).stack@, final(self).stack@),
    {
        let var = self.new_var(ident, kind);
        self.stack.push((ident.name.clone(), var));
        var
    }
}

} // verus!
fn main() {}
