use vstd::prelude::*;
verus! {
pub enum Stmt {
    Break,
    Loop { cond: Expr, body: Vec<Stmt> },
    Block { statements: Vec<Stmt> },
    Def { value: Expr },
    Exp { value: Expr },
}
pub enum Expr {
    Int(i64),
    If { branches: Vec<(Option<Expr>, Vec<Stmt>)> },
    Function { body: Vec<Stmt>, pure_: bool },
    Bin { a: Box<Expr>, b: Box<Expr> },
}

pub open spec fn brk_s(s: Stmt, in_loop: bool) -> bool decreases s {
    match s {
        Stmt::Break => in_loop,
        Stmt::Loop { cond, body } => brk_e(cond, in_loop) && forall|i: int| 0 <= i < body.len() ==> brk_s(#[trigger] body[i], true),
        Stmt::Block { statements } => forall|i: int| 0 <= i < statements.len() ==> brk_s(#[trigger] statements[i], in_loop),
        Stmt::Def { value } => brk_e(value, in_loop),
        Stmt::Exp { value } => brk_e(value, in_loop),
    }
}
pub open spec fn brk_e(e: Expr, in_loop: bool) -> bool decreases e {
    match e {
        Expr::Int(_) => true,
        Expr::If { branches } => forall|i: int| 0 <= i < branches.len() ==>
            brk_branch(#[trigger] branches[i], in_loop),
        Expr::Function { body, pure_ } => forall|i: int| 0 <= i < body.len() ==> brk_s(#[trigger] body[i], false),
        Expr::Bin { a, b } => brk_e(*a, in_loop) && brk_e(*b, in_loop),
    }
}
pub open spec fn brk_branch(b: (Option<Expr>, Vec<Stmt>), in_loop: bool) -> bool decreases b {
    (match b.0 { Some(c) => brk_e(c, in_loop), None => true })
    && forall|i: int| 0 <= i < b.1.len() ==> brk_s(#[trigger] b.1[i], in_loop)
}

#[derive(Clone, Copy)]
pub struct Ctx { pub inside_loop: bool }

#[verifier::exec_allows_no_decreases_clause]
fn check_s(s: &Stmt, ctx: Ctx) -> (r: Result<(), ()>)
    ensures r is Ok ==> brk_s(*s, ctx.inside_loop)
{
    match s {
        Stmt::Break => if ctx.inside_loop { Ok(()) } else { Err(()) },
        Stmt::Loop { cond, body } => {
            check_e(cond, ctx)?;
            for st in it: body.iter()
                invariant forall|i: int| 0 <= i < it.index@ ==> brk_s(#[trigger] body[i], true)
            {
                check_s(st, Ctx { inside_loop: true })?;
            }
            Ok(())
        }
        Stmt::Block { statements } => {
            for st in it: statements.iter()
                invariant forall|i: int| 0 <= i < it.index@ ==> brk_s(#[trigger] statements[i], ctx.inside_loop)
            {
                check_s(st, ctx)?;
            }
            Ok(())
        }
        Stmt::Def { value } => check_e(value, ctx),
        Stmt::Exp { value } => check_e(value, ctx),
    }
}

#[verifier::exec_allows_no_decreases_clause]
fn check_e(e: &Expr, ctx: Ctx) -> (r: Result<(), ()>)
    ensures r is Ok ==> brk_e(*e, ctx.inside_loop)
{
    match e {
        Expr::Int(_) => Ok(()),
        Expr::If { branches } => {
            for br in it: branches.iter()
                invariant forall|i: int| 0 <= i < it.index@ ==> brk_branch(#[trigger] branches[i], ctx.inside_loop)
            {
                if let Some(c) = &br.0 { check_e(c, ctx)?; }
                for st in it2: br.1.iter()
                    invariant forall|i: int| 0 <= i < it2.index@ ==> brk_s(#[trigger] br.1[i], ctx.inside_loop)
                {
                    check_s(st, ctx)?;
                }
            }
            Ok(())
        }
        Expr::Function { body, pure_ } => {
            for st in it: body.iter()
                invariant forall|i: int| 0 <= i < it.index@ ==> brk_s(#[trigger] body[i], false)
            {
                check_s(st, ctx)?;   // BUG: should reset inside_loop
            }
            Ok(())
        }
        Expr::Bin { a, b } => { check_e(a, ctx)?; check_e(b, ctx) }
    }
}
} // verus!
fn main() {}
