use vstd::prelude::*;
verus! {

#[derive(Clone, Copy, PartialEq, Eq, PartialOrd, Ord)]
pub struct TyID(pub usize);
#[derive(Clone, Copy)]
pub struct Span { pub file_id: usize, pub line_start: usize }
pub enum Purity { Pure, Impure, Undefined }
pub enum Type {
    Unknown, Ty, Invalid, Void, Nil, Int, Float, Bool, Str,
    Tuple(Vec<TyID>),
    List(TyID),
    Function(Vec<TyID>, TyID, Purity),
}
pub struct Error { pub span: Span }
type TypeResult<T> = Result<T, Vec<Error>>;
#[derive(Clone, Copy)]
struct TypeCtx { inside_loop: bool, inside_pure: bool }

#[verifier::external_body]
pub struct TypeChecker { dummy: usize }

#[verifier::external_body]
fn opaque_errs(span: Span) -> (r: Vec<Error>) ensures r.len() == 1, r[0].span == span { unimplemented!() }
macro_rules! err_type_error {
    ($self:expr, $span:expr, $($rest:tt)*) => { Err(opaque_errs($span)) };
}

pub type TcView = Map<TyID, Type>;

// the `+` table, from the property statement
pub open spec fn add_ok(m: TcView, a: TyID, b: TyID, d: nat) -> bool decreases d {
    if d == 0 { true } else {
        match (m[a], m[b]) {
            (Type::Unknown, _) => true,
            (_, Type::Unknown) => true,
            (Type::Float, Type::Float) => true,
            (Type::Int, Type::Int) => true,
            (Type::Str, Type::Str) => true,
            (Type::Tuple(x), Type::Tuple(y)) => x.len() == y.len()
                && forall|i: int| 0 <= i < x.len() ==> add_ok(m, #[trigger] x[i], y[i], (d - 1) as nat),
            _ => false,
        }
    }
}


pub open spec fn add_ok_all(m: TcView, a: TyID, b: TyID) -> bool { forall|d: nat| add_ok(m, a, b, d) }

proof fn lemma_elem(m: TcView, a: TyID, b: TyID, k: int)
    requires m[a] is Tuple, m[b] is Tuple, 0 <= k < m[a]->Tuple_0.len(), m[a]->Tuple_0.len() == m[b]->Tuple_0.len(),
    ensures add_ok_all(m, a, b) ==> add_ok_all(m, m[a]->Tuple_0[k], m[b]->Tuple_0[k])
{
    if add_ok_all(m, a, b) {
        assert forall|d: nat| add_ok(m, m[a]->Tuple_0[k], m[b]->Tuple_0[k], d) by {
            assert(add_ok(m, a, b, d + 1));
        }
    }
}

proof fn lemma_intro(m: TcView, a: TyID, b: TyID)
    requires m[a] is Tuple, m[b] is Tuple, m[a]->Tuple_0.len() == m[b]->Tuple_0.len(),
        forall|i: int| 0 <= i < m[a]->Tuple_0.len() ==> #[trigger] add_ok_all(m, m[a]->Tuple_0[i], m[b]->Tuple_0[i]),
    ensures add_ok_all(m, a, b)
{
    assert forall|d: nat| add_ok(m, a, b, d) by {
        if d > 0 {
            assert forall|i: int| 0 <= i < m[a]->Tuple_0.len() implies add_ok(m, #[trigger] m[a]->Tuple_0[i], m[b]->Tuple_0[i], (d - 1) as nat) by {
                assert(add_ok_all(m, m[a]->Tuple_0[i], m[b]->Tuple_0[i]));
            }
        }
    }
}

impl TypeChecker {
    pub uninterp spec fn tyv(&self) -> TcView;

    #[verifier::external_body]
    fn find_type(&mut self, a: TyID) -> (r: Type)
        ensures r == old(self).tyv()[a], final(self).tyv() == old(self).tyv()
    { unimplemented!() }

    #[verifier::exec_allows_no_decreases_clause]
    #[verifier::loop_isolation(false)]
    fn add(&mut self, span: Span, ctx: TypeCtx, a: TyID, b: TyID) -> (r: TypeResult<()>)
        ensures
            final(self).tyv() == old(self).tyv(),
            r is Ok <==> add_ok_all(old(self).tyv(), a, b),
            r is Err ==> r->Err_0.len() >= 1 && r->Err_0[0].span == span,
    {
        /*@entry*/ let ghost m = self.tyv(); let ghost a_id = a; let ghost b_id = b;
        /*@entry*/ proof { assert(add_ok_all(m, a_id, b_id) ==> add_ok(m, a_id, b_id, 1)); }
        match (self.find_type(a), self.find_type(b)) {
            (Type::Unknown, _) | (_, Type::Unknown) => Ok(()),

            (Type::Float, Type::Float) | (Type::Int, Type::Int) | (Type::Str, Type::Str) => Ok(()),

            (Type::Tuple(a), Type::Tuple(b)) => if a.len() == b.len() {
                /*@before loop 1*/ let ghost xs = a@; let ghost ys = b@;
                for (a, b) in it: a.iter().zip(b.iter())
                    invariant
                        self.tyv() == m, m == old(self).tyv(), xs.len() == ys.len(),
                        it.seq().len() == xs.len(),
                        forall|i: int| 0 <= i < xs.len() ==> *(#[trigger] it.seq()[i]).0 == xs[i] && *it.seq()[i].1 == ys[i],
                        xs == m[a_id]->Tuple_0@, ys == m[b_id]->Tuple_0@, m[a_id] is Tuple, m[b_id] is Tuple,
                        forall|i: int| 0 <= i < it.index@ ==> #[trigger] add_ok_all(m, xs[i], ys[i]),
                {
                    /*@loop 1 body start*/ proof { lemma_elem(m, a_id, b_id, it.index@); }
                    self.add(span, ctx, *a, *b)?;
                }
                /*@after loop 1*/ proof { lemma_intro(m, a_id, b_id); }
                Ok(())
            } else { err_type_error!(
                self,
                span,
                TypeError::BinOp {
                    lhs: self.bake_type(a),
                    rhs: self.bake_type(b),
                    op: "+".to_string(),
                }
            ) },

            _ => err_type_error!(
                self,
                span,
                TypeError::BinOp {
                    lhs: self.bake_type(a),
                    rhs: self.bake_type(b),
                    op: "+".to_string(),
                }
            ),
        }
    }
}

} // verus!
fn main() {}
