use vstd::prelude::*;
use std::collections::BTreeMap;
verus! {

#[derive(Clone, Copy, PartialEq, Eq, PartialOrd, Ord)]
pub struct TyID(pub usize);
#[derive(Clone, Copy)]
pub struct Span { pub file_id: usize, pub line_start: usize }
pub enum Purity { Pure, Impure, Undefined }
pub enum Type {
    Unknown, Ty, Invalid, Void, Nil, Int, Float, Bool, Str,
    Tuple(Vec<TyID>),
    List(TyID),
    Function(Vec<TyID>, TyID, Purity),
}
pub struct Error { pub span: Span }
type TypeResult<T> = Result<T, Vec<Error>>;
#[derive(Clone, Copy)]
struct TypeCtx { inside_loop: bool, inside_pure: bool }

#[verifier::external_body]
pub struct TypeChecker { dummy: usize }

#[verifier::external_body]
fn opaque_errs(span: Span) -> (r: Vec<Error>) ensures r.len() == 1, r[0].span == span { unimplemented!() }
macro_rules! err_type_error {
    ($self:expr, $span:expr, $($rest:tt)*) => { Err(opaque_errs($span)) };
}

// ---- spec: the operator table, written from the property statement ----
pub open spec fn add_ok(tc: TypeChecker, a: TyID, b: TyID, d: nat) -> bool decreases d {
    if d == 0 { true } else {
        match (tc.ty_of(a), tc.ty_of(b)) {
            (Type::Unknown, _) => true,
            (_, Type::Unknown) => true,
            (Type::Float, Type::Float) => true,
            (Type::Int, Type::Int) => true,
            (Type::Str, Type::Str) => true,
            (Type::Tuple(x), Type::Tuple(y)) => x.len() == y.len()
                && forall|i: int| 0 <= i < x.len() ==> add_ok(tc, #[trigger] x[i], y[i], (d - 1) as nat),
            _ => false,
        }
    }
}

impl TypeChecker {
    pub uninterp spec fn ty_of(&self, a: TyID) -> Type;

    #[verifier::external_body]
    fn find_type(&mut self, a: TyID) -> (r: Type)
        ensures r == old(self).ty_of(a), forall|x: TyID| final(self).ty_of(x) == old(self).ty_of(x)
    { unimplemented!() }

    #[verifier::exec_allows_no_decreases_clause]
    fn add(&mut self, span: Span, ctx: TypeCtx, a: TyID, b: TyID) -> (r: TypeResult<()>)
        ensures
            forall|x: TyID| final(self).ty_of(x) == old(self).ty_of(x),
            r is Ok ==> forall|d: nat| add_ok(*old(self), a, b, d),
            r is Err ==> exists|d: nat| !add_ok(*old(self), a, b, d),
            r is Err ==> r->Err_0.len() >= 1 && r->Err_0[0].span == span,
    {
        match (self.find_type(a), self.find_type(b)) {
            (Type::Unknown, _) | (_, Type::Unknown) => Ok(()),

            (Type::Float, Type::Float) | (Type::Int, Type::Int) | (Type::Str, Type::Str) => Ok(()),

            (Type::Tuple(a), Type::Tuple(b)) if a.len() == b.len() => {
                let ghost xs = a@; let ghost ys = b@;
                for (a, b) in it: a.iter().zip(b.iter())
                    invariant
                        forall|x: TyID| self.ty_of(x) == old(self).ty_of(x),
                        forall|i: int, d: nat| 0 <= i < it.index@ ==> #[trigger] add_ok(*old(self), xs[i], ys[i], d),
                {
                    self.add(span, ctx, *a, *b)?;
                }
                Ok(())
            }

            _ => err_type_error!(
                self,
                span,
                TypeError::BinOp {
                    lhs: self.bake_type(a),
                    rhs: self.bake_type(b),
                    op: "+".to_string(),
                }
            ),
        }
    }
}

} // verus!
fn main() {}
