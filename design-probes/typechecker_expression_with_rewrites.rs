
use vstd::prelude::*;
pub mod ext {
    #[derive(Clone, PartialEq, Eq, Hash, PartialOrd, Ord, Debug)]
    pub struct Type { x: usize }
    #[derive(Clone, PartialEq, Eq, Hash, PartialOrd, Debug)]
    pub struct FileOrLib { x: usize }
}
use std::collections::{BTreeMap, HashMap};
verus! {

pub mod sylt_tokenizer_m {
    use super::*;
    #[derive(Clone, Copy, PartialEq, Eq, Hash, Debug)]
    pub struct Span { pub file_id: usize, pub line_start: usize, pub line_end: usize, pub col_start: usize, pub col_end: usize }
}
pub mod sylt_common {
    use super::*;
    pub use crate::ext::{Type, FileOrLib};
    #[verifier::external_type_specification]
    #[verifier::external_body]
    pub struct ExType(Type);
    #[verifier::external_type_specification]
    #[verifier::external_body]
    pub struct ExFileOrLib(FileOrLib);
    pub assume_specification [ <Type as Clone>::clone ] (e: &Type) -> (r: Type) ensures r == *e;
    pub assume_specification [ <FileOrLib as Clone>::clone ] (e: &FileOrLib) -> (r: FileOrLib) ensures r == *e;
    #[derive(Clone, Copy, PartialEq, Eq, Hash, PartialOrd, Ord)]
    pub struct TyID(pub usize);
    pub struct Error { pub span: super::sylt_tokenizer_m::Span }
}
pub mod sylt_parser {
    use super::*;
    pub use super::sylt_tokenizer_m::Span;
    use super::sylt_common::{FileOrLib, TyID, Type as RuntimeType};
    pub mod expression { pub use super::{CaseBranch, IfBranch, ComparisonKind}; }
    type Alias = Identifier;
impl VarKind {
    pub fn immutable(&self) -> bool {
        matches!(self, VarKind::Const)
    }
}
#[derive(Copy, Clone, PartialEq, Eq, PartialOrd, Ord, Hash)]
pub enum VarKind {
    Const,
    Mutable,
}

#[derive(Copy, Clone, PartialEq)]
pub enum Op {
    Nop,
    Add,
    Sub,
    Mul,
    Div,
}

impl Clone for Identifier { #[verifier::external_body] fn clone(&self) -> (r: Self) ensures r == *self { unimplemented!() } }
#[derive(Eq, Hash)]
pub struct Identifier {
    pub span: Span,
    pub name: String,
}

impl Clone for AssignableKind { #[verifier::external_body] fn clone(&self) -> (r: Self) ensures r == *self { unimplemented!() } }
impl PartialEq for AssignableKind { #[verifier::external_body] fn eq(&self, other: &Self) -> (r: bool) ensures r == (*self == *other) { unimplemented!() } }
pub enum AssignableKind {
    Read(Identifier),
    Variant {
        enum_ass: Box<Assignable>,
        variant: Identifier,
        value: Box<Expression>,
    },
    Call(Box<Assignable>, Vec<Expression>),
    ArrowCall(Box<Expression>, Box<Assignable>, Vec<Expression>),
    Access(Box<Assignable>, Identifier),
    Index(Box<Assignable>, Box<Expression>),
    Expression(Box<Expression>),
}

impl Clone for Assignable { #[verifier::external_body] fn clone(&self) -> (r: Self) ensures r == *self { unimplemented!() } }
pub struct Assignable {
    pub span: Span,
    pub kind: AssignableKind,
}

impl Clone for TypeAssignableKind { #[verifier::external_body] fn clone(&self) -> (r: Self) ensures r == *self { unimplemented!() } }
impl PartialEq for TypeAssignableKind { #[verifier::external_body] fn eq(&self, other: &Self) -> (r: bool) ensures r == (*self == *other) { unimplemented!() } }
pub enum TypeAssignableKind {
    Read(Identifier),
    Access(Box<TypeAssignable>, Identifier),
}

impl Clone for TypeAssignable { #[verifier::external_body] fn clone(&self) -> (r: Self) ensures r == *self { unimplemented!() } }
impl PartialEq for TypeAssignable { #[verifier::external_body] fn eq(&self, other: &Self) -> (r: bool) ensures r == (*self == *other) { unimplemented!() } }
pub struct TypeAssignable {
    pub span: Span,
    pub kind: TypeAssignableKind,
}

impl Clone for TypeKind { #[verifier::external_body] fn clone(&self) -> (r: Self) ensures r == *self { unimplemented!() } }
impl PartialEq for TypeKind { #[verifier::external_body] fn eq(&self, other: &Self) -> (r: bool) ensures r == (*self == *other) { unimplemented!() } }
pub enum TypeKind {
    Implied,
    Resolved(RuntimeType),
    UserDefined(TypeAssignable, Vec<Type>),
    Fn {
        constraints: BTreeMap<String, Vec<TypeConstraint>>,
        params: Vec<Type>,
        ret: Box<Type>,
        is_pure: bool,
    },
    Tuple(Vec<Type>),
    List(Box<Type>),
    Generic(String),
    Grouping(Box<Type>),
}

impl Clone for Type { #[verifier::external_body] fn clone(&self) -> (r: Self) ensures r == *self { unimplemented!() } }
pub struct Type {
    pub span: Span,
    pub kind: TypeKind,
}

impl Clone for TypeConstraint { #[verifier::external_body] fn clone(&self) -> (r: Self) ensures r == *self { unimplemented!() } }
impl PartialEq for TypeConstraint { #[verifier::external_body] fn eq(&self, other: &Self) -> (r: bool) ensures r == (*self == *other) { unimplemented!() } }
pub struct TypeConstraint {
    pub name: Identifier,
    pub args: Vec<Identifier>,
}

impl Clone for ComparisonKind { #[verifier::external_body] fn clone(&self) -> (r: Self) ensures r == *self { unimplemented!() } }
impl PartialEq for ComparisonKind { #[verifier::external_body] fn eq(&self, other: &Self) -> (r: bool) ensures r == (*self == *other) { unimplemented!() } }
pub enum ComparisonKind {
    Equals,
    NotEquals,
    Greater,
    GreaterEqual,
    Less,
    LessEqual,
}

impl Clone for CaseBranch { #[verifier::external_body] fn clone(&self) -> (r: Self) ensures r == *self { unimplemented!() } }
impl PartialEq for CaseBranch { #[verifier::external_body] fn eq(&self, other: &Self) -> (r: bool) ensures r == (*self == *other) { unimplemented!() } }
pub struct CaseBranch {
    pub pattern: Identifier,
    pub variable: Option<Identifier>,
    pub body: Vec<Statement>,
}

impl Clone for IfBranch { #[verifier::external_body] fn clone(&self) -> (r: Self) ensures r == *self { unimplemented!() } }
impl PartialEq for IfBranch { #[verifier::external_body] fn eq(&self, other: &Self) -> (r: bool) ensures r == (*self == *other) { unimplemented!() } }
pub struct IfBranch {
    pub condition: Option<Expression>,
    pub body: Vec<Statement>,
    pub span: Span,
}

impl Clone for ExpressionKind { #[verifier::external_body] fn clone(&self) -> (r: Self) ensures r == *self { unimplemented!() } }
impl PartialEq for ExpressionKind { #[verifier::external_body] fn eq(&self, other: &Self) -> (r: bool) ensures r == (*self == *other) { unimplemented!() } }
pub enum ExpressionKind {
    Get(Assignable),

    Add(Box<Expression>, Box<Expression>),
    Sub(Box<Expression>, Box<Expression>),
    Mul(Box<Expression>, Box<Expression>),
    Div(Box<Expression>, Box<Expression>),
    Neg(Box<Expression>),

    Comparison(Box<Expression>, ComparisonKind, Box<Expression>),

    AssertEq(Box<Expression>, Box<Expression>),

    And(Box<Expression>, Box<Expression>),
    Or(Box<Expression>, Box<Expression>),
    Not(Box<Expression>),

    Parenthesis(Box<Expression>),

    If(Vec<IfBranch>),

    Case {
        to_match: Box<Expression>,
        branches: Vec<CaseBranch>,
        fall_through: Option<Vec<Statement>>,
    },

    Function {
        name: String,
        params: Vec<(Identifier, Type)>,
        ret: Type,

        body: Vec<Statement>,
        pure: bool,
    },
    Blob {
        blob: TypeAssignable,
        fields: Vec<(String, Expression)>, // Keep calling order
    },
    Tuple(Vec<Expression>),
    List(Vec<Expression>),

    Float(f64),
    Int(i64),
    Str(String),
    Bool(bool),
    Nil,
}

impl Clone for Expression { #[verifier::external_body] fn clone(&self) -> (r: Self) ensures r == *self { unimplemented!() } }
pub struct Expression {
    pub span: Span,
    pub ty: Option<TyID>,
    pub kind: ExpressionKind,
}

impl Clone for NameIdentifier { #[verifier::external_body] fn clone(&self) -> (r: Self) ensures r == *self { unimplemented!() } }
impl PartialEq for NameIdentifier { #[verifier::external_body] fn eq(&self, other: &Self) -> (r: bool) ensures r == (*self == *other) { unimplemented!() } }
pub enum NameIdentifier {
    Implicit(Identifier),
    Alias(Identifier),
}

impl Clone for StatementKind { #[verifier::external_body] fn clone(&self) -> (r: Self) ensures r == *self { unimplemented!() } }
impl PartialEq for StatementKind { #[verifier::external_body] fn eq(&self, other: &Self) -> (r: bool) ensures r == (*self == *other) { unimplemented!() } }
pub enum StatementKind {
    Use {
        path: Identifier,
        name: NameIdentifier,
        file: FileOrLib,
    },

    FromUse {
        path: Identifier,
        imports: Vec<(Identifier, Option<Alias>)>,
        file: FileOrLib,
    },

    Blob {
        name: Identifier,
        variables: Vec<Identifier>,
        fields: HashMap<Identifier, Type>,
        external: bool,
    },

    Enum {
        name: Identifier,
        variables: Vec<Identifier>,
        variants: HashMap<Identifier, Type>,
    },

    Assignment {
        kind: Op,
        target: Assignable,
        value: Expression,
    },

    Definition {
        ident: Identifier,
        kind: VarKind,
        ty: Type,
        value: Expression,
    },

    ExternalDefinition {
        ident: Identifier,
        kind: VarKind,
        ty: Type,
    },

    Loop {
        condition: Expression,
        body: Box<Statement>,
    },

    Break,

    Continue,

    Ret {
        value: Option<Expression>,
    },

    Block {
        statements: Vec<Statement>,
    },

    StatementExpression {
        value: Expression,
    },

    Unreachable,

    EmptyStatement,
}

impl Clone for Statement { #[verifier::external_body] fn clone(&self) -> (r: Self) ensures r == *self { unimplemented!() } }
pub struct Statement {
    pub span: Span,
    pub kind: StatementKind,
    pub comments: Vec<String>,
}

impl PartialOrd for Identifier {
    fn partial_cmp(&self, other: &Self) -> Option<std::cmp::Ordering> {
        Some(self.name.cmp(&other.name))
    }
}

impl Ord for Identifier {
    fn cmp(&self, other: &Self) -> std::cmp::Ordering {
        self.name.cmp(&other.name)
    }
}

impl PartialEq for Identifier {
    fn eq(&self, other: &Self) -> bool {
        self.name == other.name
    }
}

impl PartialEq for Assignable {
    fn eq(&self, other: &Self) -> bool {
        self.kind == other.kind
    }
}

impl PartialEq for Type {
    fn eq(&self, other: &Self) -> bool {
        self.kind == other.kind
    }
}

impl PartialEq for Expression {
    fn eq(&self, other: &Self) -> bool {
        self.kind == other.kind
    }
}

impl PartialEq for Statement {
    fn eq(&self, other: &Self) -> bool {
        self.kind == other.kind
    }
}
}

use sylt_common::Type as RuntimeType;
use sylt_common::{Error, FileOrLib};
use sylt_parser::{
    expression::CaseBranch as ParserCaseBranch, expression::IfBranch as ParserIfBranch,
    Assignable as ParserAssignable, Expression as ParserExpression, Identifier, Span,
    Statement as ParserStatement, Type as ParserType, TypeAssignable as ParserTypeAssignable,
    TypeConstraint, VarKind,
};
pub assume_specification<T> [std::option::Option::<T>::or] (a: std::option::Option<T>, b: std::option::Option<T>) -> (r: std::option::Option<T>)
    ensures r == (if a is Some { a } else { b });
type NamespaceID = usize;
type ResolveResult<T> = Result<T, Vec<Error>>;
type Ref = usize;

#[verifier::external_body]
fn opaque_error(span: Span) -> Error { unimplemented!() }
#[verifier::external_body]
fn opaque_string() -> String { unimplemented!() }
macro_rules! format { ($($t:tt)*) => { opaque_string() }; }
macro_rules! raise_resolution_error {
    ($self:expr, $span:expr, $( $msg:expr ),* ) => { return Err(vec![resolution_error!($self, $span, $( $msg ),*)]) };
}
macro_rules! resolution_error {
    ($self:expr, $span:expr, $( $msg:expr ),* ) => { opaque_error($span.clone()) };
}

impl Clone for BinOp { #[verifier::external_body] fn clone(&self) -> (r: Self) ensures r == *self { unimplemented!() } }
impl PartialEq for BinOp { #[verifier::external_body] fn eq(&self, other: &Self) -> (r: bool) ensures r == (*self == *other) { unimplemented!() } }
pub enum BinOp {
    // For assignment
    Nop,
    // Comp
    Equals,
    NotEquals,
    Greater,
    GreaterEqual,
    Less,
    LessEqual,
    // Misc
    AssertEq,
    // Mul
    Add,
    Sub,
    Mul,
    Div,
    // Bool
    And,
    Or,
}

impl Clone for UniOp { #[verifier::external_body] fn clone(&self) -> (r: Self) ensures r == *self { unimplemented!() } }
impl PartialEq for UniOp { #[verifier::external_body] fn eq(&self, other: &Self) -> (r: bool) ensures r == (*self == *other) { unimplemented!() } }
pub enum UniOp {
    Neg,
    Not,
}

impl Clone for Collection { #[verifier::external_body] fn clone(&self) -> (r: Self) ensures r == *self { unimplemented!() } }
impl PartialEq for Collection { #[verifier::external_body] fn eq(&self, other: &Self) -> (r: bool) ensures r == (*self == *other) { unimplemented!() } }
pub enum Collection {
    Tuple,
    List,
}

impl Clone for IfBranch { #[verifier::external_body] fn clone(&self) -> (r: Self) ensures r == *self { unimplemented!() } }
impl PartialEq for IfBranch { #[verifier::external_body] fn eq(&self, other: &Self) -> (r: bool) ensures r == (*self == *other) { unimplemented!() } }
pub struct IfBranch {
    pub condition: Option<Expression>,
    pub body: Vec<Statement>,
    pub span: Span,
}

impl Clone for CaseBranch { #[verifier::external_body] fn clone(&self) -> (r: Self) ensures r == *self { unimplemented!() } }
impl PartialEq for CaseBranch { #[verifier::external_body] fn eq(&self, other: &Self) -> (r: bool) ensures r == (*self == *other) { unimplemented!() } }
pub struct CaseBranch {
    pub pattern: Identifier,
    pub variable: Option<Ref>,
    pub body: Vec<Statement>,
    pub span: Span,
}

impl Clone for Expression { #[verifier::external_body] fn clone(&self) -> (r: Self) ensures r == *self { unimplemented!() } }
impl PartialEq for Expression { #[verifier::external_body] fn eq(&self, other: &Self) -> (r: bool) ensures r == (*self == *other) { unimplemented!() } }
pub enum Expression {
    Read {
        var: Ref,
        span: Span,
    },
    Variant {
        ty: Ref,
        variant: String,
        value: Box<Expression>,
        span: Span,
    },
    Call {
        function: Box<Expression>,
        args: Vec<Expression>,
        span: Span,
    },
    BlobAccess {
        value: Box<Expression>,
        field: String,
        span: Span,
    },
    Index {
        value: Box<Expression>,
        index: Box<Expression>,
        span: Span,
    },

    BinOp {
        a: Box<Expression>,
        b: Box<Expression>,
        op: BinOp,
        span: Span,
    },
    UniOp {
        a: Box<Expression>,
        op: UniOp,
        span: Span,
    },

    If {
        branches: Vec<IfBranch>,
        span: Span,
    },
    Case {
        to_match: Box<Expression>,
        branches: Vec<CaseBranch>,
        fall_through: Option<Vec<Statement>>,
        span: Span,
    },
    Function {
        name: String,
        params: Vec<(String, Ref, Span, Type)>,
        ret: Type,

        body: Vec<Statement>,
        pure: bool,

        span: Span,
    },
    Blob {
        blob: Ref,
        fields: Vec<(String, Expression)>, // Keep calling order
        self_var: Ref,
        span: Span,
    },

    Collection {
        collection: Collection,
        values: Vec<Expression>,
        span: Span,
    },

    Float(f64, Span),
    Int(i64, Span),
    Str(String, Span),
    Bool(bool, Span),
    Nil(Span),
}

impl Clone for Type { #[verifier::external_body] fn clone(&self) -> (r: Self) ensures r == *self { unimplemented!() } }
impl PartialEq for Type { #[verifier::external_body] fn eq(&self, other: &Self) -> (r: bool) ensures r == (*self == *other) { unimplemented!() } }
pub enum Type {
    UserType(Ref, Vec<Type>, Span),
    Implied(Span),
    Resolved(RuntimeType, Span),
    Generic(String, Span),
    Tuple(Vec<Type>, Span),
    List(Box<Type>, Span),
    Fn {
        constraints: BTreeMap<String, Vec<TypeConstraint>>,
        params: Vec<Type>,
        ret: Box<Type>,
        is_pure: bool,
        span: Span,
    },
}

impl Clone for Statement { #[verifier::external_body] fn clone(&self) -> (r: Self) ensures r == *self { unimplemented!() } }
impl PartialEq for Statement { #[verifier::external_body] fn eq(&self, other: &Self) -> (r: bool) ensures r == (*self == *other) { unimplemented!() } }
pub enum Statement {
    Assignment {
        op: BinOp,
        target: Expression,
        value: Expression,
        span: Span,
    },

    Blob {
        name: String,
        var: Ref,
        span: Span,
        variables: Vec<String>,
        fields: HashMap<String, (Span, Type)>,
        external: bool,
    },

    Enum {
        name: String,
        var: Ref,
        span: Span,
        variables: Vec<String>,
        variants: HashMap<String, (Span, Type)>,
    },

    Definition {
        name: String,
        var: Ref,
        kind: VarKind,
        ty: Type,
        value: Expression,
        span: Span,
    },

    ExternalDefinition {
        name: String,
        var: Ref,
        kind: VarKind,
        ty: Type,
        span: Span,
    },

    Loop {
        condition: Expression,
        body: Vec<Statement>, // TODO(ed): The parser-statement-loop should have a vector here.
        span: Span,
    },

    Break(Span),

    Continue(Span),

    Ret {
        value: Option<Expression>,
        span: Span,
    },

    Block {
        statements: Vec<Statement>,
        span: Span,
    },

    StatementExpression { value: Expression, span: Span },

    Unreachable(Span),
}

impl Clone for Var { #[verifier::external_body] fn clone(&self) -> (r: Self) ensures r == *self { unimplemented!() } }
impl PartialEq for Var { #[verifier::external_body] fn eq(&self, other: &Self) -> (r: bool) ensures r == (*self == *other) { unimplemented!() } }
pub struct Var {
    pub id: Ref,
    pub name: String,
    pub definition: Span,
    pub is_global: bool,
    pub kind: VarKind,
}

#[derive(Clone, PartialEq)]
enum Name {
    Name(Ref),
    Namespace(FileOrLib, Span),
}

struct Resolver {
    namespaces: HashMap<FileOrLib, HashMap<String, Name>>,
    stack: Vec<(String, Ref)>,
    variables: Vec<Var>,
    namespace_to_file: HashMap<NamespaceID, FileOrLib>,
    file_to_namespace: HashMap<FileOrLib, NamespaceID>,
}


impl Expression {
    pub fn span(&self) -> Span {
        match self {
            Expression::Read { span, .. }
            | Expression::Variant { span, .. }
            | Expression::Call { span, .. }
            | Expression::BlobAccess { span, .. }
            | Expression::Index { span, .. }
            | Expression::BinOp { span, .. }
            | Expression::UniOp { span, .. }
            | Expression::If { span, .. }
            | Expression::Case { span, .. }
            | Expression::Function { span, .. }
            | Expression::Blob { span, .. }
            | Expression::Collection { span, .. }
            | Expression::Float(_, span)
            | Expression::Int(_, span)
            | Expression::Str(_, span)
            | Expression::Bool(_, span)
            | Expression::Nil(span) => *span,
        }
    }
}
impl Type {
    #[verifier::external_body]
    pub fn is_void(&self) -> bool { unimplemented!() }
    pub fn span(&self) -> Span {
        match self {
            Type::UserType(_, _, span)
            | Type::Implied(span)
            | Type::Resolved(_, span)
            | Type::Generic(_, span)
            | Type::Tuple(_, span)
            | Type::List(_, span)
            | Type::Fn { span, .. } => *span,
        }
    }


}
impl Statement {
    pub fn span(&self) -> Span {
        match self {
            Statement::Assignment { span, .. }
            | Statement::Blob { span, .. }
            | Statement::Block { span, .. }
            | Statement::Break(span)
            | Statement::Continue(span)
            | Statement::Definition { span, .. }
            | Statement::Enum { span, .. }
            | Statement::ExternalDefinition { span, .. }
            | Statement::Loop { span, .. }
            | Statement::Ret { span, .. }
            | Statement::StatementExpression { span, .. }
            | Statement::Unreachable(span) => *span,
        }
    }
}
pub mod ty {
    use super::*;
    use super::sylt_common::TyID;
#[derive(Clone)]
pub enum Purity {
    Pure,
    Impure,
    Undefined,
}

#[derive(Clone)]
pub enum Type {
    Unknown,

    Ty,
    Invalid,

    Void,
    Nil,
    Int,
    Float,
    Bool,
    Str,
    Tuple(Vec<TyID>),
    List(TyID),
    Function(Vec<TyID>, TyID, Purity),
    Blob(String, Span, BTreeMap<String, (Span, TyID)>, Vec<TyID>),
    ExternBlob(
        String,
        Span,
        BTreeMap<String, (Span, TyID)>,
        Vec<TyID>,
        usize,
    ),
    Enum(String, Span, BTreeMap<String, (Span, TyID)>, Vec<TyID>),
}
}
use ty::{Type as TcType, Purity};
use sylt_common::TyID;
use std::collections::BTreeSet;
type TypeResult<T> = Result<T, Vec<Error>>;
type RetNValue = (Option<TyID>, TyID);
type ResolverType = Type;
pub enum TypeError { Exotic, Impurity, Assignability, Other }

#[verifier::external_body]
fn opaque_usize() -> usize { unimplemented!() }
#[verifier::external_body]
fn opaque_errs(span: Span) -> (r: Vec<Error>) { unimplemented!() }
macro_rules! bin_op {
    ($self:expr, $span:expr, $ctx:expr, $a:expr, $b:expr, $con:expr) => {{
        let (a_ret, a) = $self.expression($a, $ctx)?;
        let (b_ret, b) = $self.expression($b, $ctx)?;
        $self.add_constraint(a, $span, $con(b));
        $self.add_constraint(b, $span, $con(a));
        $self.check_constraints($span, $ctx, a)?;
        $self.check_constraints($span, $ctx, b)?;
        with_ret($self.unify_option($span, $ctx, a_ret, b_ret)?, a)
    }};
    ($self:expr, $span:expr, $ctx:expr, $a:expr, $b:expr, $con:expr, $ret:expr) => {{
        let (ret, _) = bin_op!($self, $span, $ctx, $a, $b, $con)?;
        with_ret(ret, $self.push_type($ret))
    }};
}
macro_rules! err_type_error {
    ($self:expr, $span:expr, $($rest:tt)*) => { Err(opaque_errs($span)) };
}
macro_rules! type_error {
    ($self:expr, $span:expr, $($rest:tt)*) => { opaque_error($span) };
}
pub mod sylt_macro { macro_rules! timed_handle { ($($t:tt)*) => { () }; } pub(crate) use timed_handle; }

fn no_ret(value: TyID) -> TypeResult<RetNValue> {
    Ok((None, value))
}

fn with_ret(ret: Option<TyID>, value: TyID) -> TypeResult<RetNValue> {
    Ok((ret, value))
}

#[derive(Clone)]
struct TypeNode {
    ty: TcType,
    parent: Option<TyID>,
    size: usize,
    constraints: BTreeMap<Constraint, Span>,
}

#[derive(Clone, Hash, PartialOrd, Ord, PartialEq, Eq)]
enum Constraint {
    Add(TyID),
    Sub(TyID),
    Mul(TyID),
    DivTop(TyID),
    DivBot(TyID),
    DivRes(TyID),
    Equ(TyID),
    Cmp(TyID),
    CmpEqu(TyID),

    Neg,

    ConstantIndex(i64, TyID),

    Field(String, TyID),

    Num,

    Enum,
    Variant(String, Option<TyID>),
    TotalEnum(BTreeSet<String>),

    Variable,
}

#[derive(Clone)]
pub struct TypeVariable {
    pub name: String,
    pub id: usize,
    pub definition: Span,
    pub is_global: bool,
    pub kind: VarKind,
    pub ty: TyID,
}

pub struct TypeChecker {
    types: Vec<TypeNode>,
    pub variables: Vec<TypeVariable>,
    namespace_to_file: HashMap<NamespaceID, FileOrLib>,
    // TODO(ed): This can probably be removed via some trickery
    pub file_to_namespace: HashMap<FileOrLib, NamespaceID>,
}

#[derive(Clone, Copy)]
struct TypeCtx {
    inside_loop: bool,
    inside_pure: bool,
}

impl TypeCtx {
    fn new() -> Self {
        Self { inside_loop: false, inside_pure: false }
    }

    fn enter_loop(self) -> Self {
        Self { inside_loop: true, ..self }
    }

    fn enter_pure(self) -> Self {
        Self { inside_pure: true, ..self }
    }
}

trait Help { fn help(self, typechecker: &TypeChecker, span: Span, message: String) -> Self; fn help_no_span(self, message: String) -> Self; }
impl<T> Help for TypeResult<T> {
    #[verifier::external_body]
    fn help(self, typechecker: &TypeChecker, span: Span, message: String) -> Self { unimplemented!() }
    #[verifier::external_body]
    fn help_no_span(self, message: String) -> Self { unimplemented!() }
}

impl TypeChecker {
    #[verifier::exec_allows_no_decreases_clause]
    fn expression(&mut self, expression: &Expression, ctx: TypeCtx) -> TypeResult<RetNValue> {
        use Expression as E;
        let (expr_ret, expr) = match expression {
            E::Read { var, span, .. } => {
                let var = &self.variables[*var];
                let immutable = var.kind.immutable();
                if ctx.inside_pure && !immutable {
                    return err_type_error!(
                        self,
                        *span,
                        TypeError::Impurity,
                        "Cannot access mutable variables from pure functions"
                    );
                }
                no_ret(var.ty)
            }
            E::Variant { ty, variant, value, span } => {
                let (value_ret, value) = self.expression(value, ctx)?;
                // TODO[ed]: We should be able to do without this!
                let enum_ty = self.copy(self.variables[*ty].ty);
                self.add_constraint(
                    enum_ty,
                    *span,
                    Constraint::Variant(variant.clone(), Some(value)),
                );
                self.check_constraints(*span, ctx, enum_ty)?;
                with_ret(value_ret, enum_ty)
            }
            E::Call { function, args, span } => {
                let (ret, function) = self.expression(function, ctx)?;
                match self.find_type(function) {
                    TcType::Function(params, ret_ty, purity) => {
                        if args.len() != params.len() {
                            return err_type_error!(
                                self,
                                *span,
                                TypeError::WrongArity { got: args.len(), expected: params.len() }
                            );
                        }

                        if ctx.inside_pure && !matches!(purity, Purity::Pure) {
                            return err_type_error!(
                                self,
                                *span,
                                TypeError::Impurity,
                                "Cannot call impure functions from pure functions"
                            );
                        }

                        // TODO(ed): Annotate the errors?
                        let mut ret = ret;
                        for (a, p) in args.iter().zip(params.iter()) {
                            let span = a.span();
                            let (a_ret, a) = self.expression(a, ctx)?;
                            self.unify(span, ctx, *p, a)?;
                            self.add_constraint(a, span, Constraint::Variable);
                            self.check_constraints(span, ctx, a)?;
                            ret = self.unify_option(span, ctx, ret, a_ret)?;
                        }
                        self.check_constraints(*span, ctx, ret_ty)?;

                        with_ret(ret, ret_ty)
                    }
                    TcType::Unknown => err_type_error!(
                        self,
                        *span,
                        TypeError::Violating(self.bake_type(function)),
                        "Unknown types cannot be called"
                    ),
                    _ => err_type_error!(
                        self,
                        *span,
                        TypeError::Violating(self.bake_type(function)),
                        "Not callable"
                    ),
                }
            }
            E::BlobAccess { value, field, span } => {
                let (outer_ret, outer) = self.expression(value, ctx)?;
                let field_ty = self.push_type(TcType::Unknown);
                self.add_constraint(outer, *span, Constraint::Field(field.clone(), field_ty));
                self.check_constraints(*span, ctx, outer)?;
                // TODO(ed): Don't we do this further down? Do we need this code?
                // We copy functions
                let field_ty = match self.find_type(outer) {
                    TcType::Function(_, _, _) => self.copy(field_ty),
                    _ => field_ty,
                };
                with_ret(outer_ret, field_ty)
            }
            E::Index { value, index: index_syn, span } => {
                let (value_ret, value) = self.expression(value, ctx)?;
                let (index_ret, index) = self.expression(index_syn, ctx)?;
                let int_type = self.push_type(TcType::Int);
                self.unify(*span, ctx, index, int_type)?;
                let expr = self.push_type(TcType::Unknown);
                match **index_syn {
                    E::Int(i, _) => {
                        self.add_constraint(value, *span, Constraint::ConstantIndex(i, expr))
                    }
                    _ => unreachable!("Should be handled in parser"),
                }
                self.check_constraints(*span, ctx, value)?;
                self.check_constraints(*span, ctx, index)?;
                let ret = self.unify_option(*span, ctx, value_ret, index_ret)?;
                with_ret(ret, expr)
            }

            E::BinOp { a, b, op, span } => match op {
                BinOp::Nop => unreachable!(),
                BinOp::Equals | BinOp::AssertEq | BinOp::NotEquals => {
                    bin_op!(self, *span, ctx, a, b, Constraint::Equ, TcType::Bool)
                }
                BinOp::Greater | BinOp::Less => {
                    bin_op!(self, *span, ctx, a, b, Constraint::Cmp, TcType::Bool)
                }
                BinOp::GreaterEqual | BinOp::LessEqual => {
                    bin_op!(self, *span, ctx, a, b, Constraint::CmpEqu, TcType::Bool)
                }
                BinOp::Add => bin_op!(self, *span, ctx, a, b, Constraint::Add),
                BinOp::Sub => bin_op!(self, *span, ctx, a, b, Constraint::Sub),
                BinOp::Mul => bin_op!(self, *span, ctx, a, b, Constraint::Mul),
                BinOp::Div => {
                    let (a_ret, a) = self.expression(a, ctx)?;
                    let (b_ret, b) = self.expression(b, ctx)?;
                    self.add_constraint(a, *span, Constraint::DivTop(b));
                    self.add_constraint(b, *span, Constraint::DivBot(a));
                    let c = self.push_type(TcType::Unknown);
                    self.add_constraint(c, *span, Constraint::DivRes(a));
                    self.check_constraints(*span, ctx, a)?;
                    self.check_constraints(*span, ctx, b)?;
                    self.check_constraints(*span, ctx, c)?;
                    with_ret(self.unify_option(*span, ctx, a_ret, b_ret)?, c)
                }
                BinOp::And | BinOp::Or => {
                    let (a_ret, a) = self.expression(a, ctx)?;
                    let (b_ret, b) = self.expression(b, ctx)?;
                    let boolean = self.push_type(TcType::Bool);
                    self.unify(*span, ctx, a, boolean)?;
                    self.unify(*span, ctx, b, boolean)?;
                    with_ret(self.unify_option(*span, ctx, a_ret, b_ret)?, a)
                }
            },
            E::UniOp { a, op, span } => match op {
                UniOp::Neg => {
                    let (a_ret, a) = self.expression(a, ctx)?;
                    self.add_constraint(a, *span, Constraint::Neg);
                    with_ret(a_ret, a)
                }
                UniOp::Not => {
                    let (a_ret, a) = self.expression(a, ctx)?;
                    let boolean = self.push_type(TcType::Bool);
                    with_ret(a_ret, self.unify(*span, ctx, a, boolean)?)
                }
            },

            E::If { branches, span } => {
                let mut tys = Vec::new();
                for branch in branches.iter() {
                        let condition_ret = if let Some(condition) = &branch.condition {
                            let span = condition.span();
                            let (ret, condition) = self.expression(condition, ctx)?;
                            let boolean = self.push_type(TcType::Bool);
                            self.unify(span, ctx, boolean, condition)?;
                            ret
                        } else {
                            None
                        };
                        let (block_ret, block_value) =
                            self.expression_block(*span, &branch.body, ctx)?;
                        tys.push((
                            span,
                            self.unify_option(*span, ctx, condition_ret, block_ret)?,
                            block_value,
                        ));
                }

                let mut ret = None;
                let value = if branches
                    .last()
                    .map(|branch| branch.condition.is_some())
                    .unwrap()
                {
                    // There isn't an else branch - so we can fall through.
                    let void = self.push_type(TcType::Void);
                    Some(void)
                } else {
                    let mut value = None;
                    for (span, branch_ret, branch_value) in tys.iter() {
                        // TODO(ed): These are bad errors, they're easy to confuse. A better
                        // formulation?
                        ret = self
                            .unify_option(**span, ctx, *branch_ret, ret)
                            .help_no_span(
                                "The return from this block doesn't match the earlier branches"
                                    .into(),
                            )?;
                        value = self
                            .unify_option(**span, ctx, *branch_value, value)
                            .help_no_span(
                                "The value from this block doesn't match the earlier branches"
                                    .into(),
                            )?;
                    }
                    value
                };
                with_ret(
                    ret,
                    match value.or(ret) { Some(v) => v, None => self.push_type(TcType::Void) },
                )
            }

            E::Case { to_match, branches, fall_through, span } => {
                let (ret, to_match) = self.expression(to_match, ctx)?;
                self.add_constraint(to_match, *span, Constraint::Enum);

                let mut ret = ret;
                let mut value = None;
                let mut branch_names = BTreeSet::new();
                for branch in branches.iter() {
                    let name = branch.pattern.name.clone();
                    let constraint = &match branch.variable { Some(var) => Some(self.variables[var].ty), None => None };
                    self.add_constraint(
                        to_match,
                        *span,
                        Constraint::Variant(name.clone(), *constraint),
                    );
                    // NOTE(ed): This unifies the variable with the enum, so it injects a function
                    // - for example - this makes it more permissive than if you place it after the
                    // `self.expression_block`.
                    self.check_constraints(*span, ctx, to_match)?;
                    let (branch_ret, branch) = self.expression_block(*span, &branch.body, ctx)?;
                    value = self.unify_option(*span, ctx, value, branch)?;
                    ret = self.unify_option(*span, ctx, ret, branch_ret)?;
                    branch_names.insert(name.clone());
                }

                if let Some(fall_through) = fall_through {
                    let (fall_ret, fall) = self.expression_block(*span, fall_through, ctx)?;
                    ret = self.unify_option(*span, ctx, fall_ret, ret)?;
                    value = self.unify_option(*span, ctx, fall, value)?;
                } else {
                    self.add_constraint(to_match, *span, Constraint::TotalEnum(branch_names));
                    self.check_constraints(*span, ctx, to_match)?;
                }
                with_ret(
                    ret,
                    match value.or(ret) { Some(v) => v, None => self.push_type(TcType::Void) },
                )
            }

            E::Function { name: _, params, ret, body, pure, span } => {
                let (f_ty, ret_ty) = self.type_from_function(ctx, params, ret, *pure)?;

                let ctx = if *pure { ctx.enter_pure() } else { ctx };
                let (actual_ret, implicit_ret) = self.expression_block(*span, body, ctx)?;
                let actual_ret = if ret.is_void() {
                    let void = Some(self.push_type(TcType::Void));
                    self.unify_option(*span, ctx, actual_ret, void)?
                } else {
                    self.unify_option(*span, ctx, actual_ret, implicit_ret)
                        .help_no_span("The implicit and explicit return types differ".into())?
                };
                self.unify_option(*span, ctx, Some(ret_ty), actual_ret)
                    .help_no_span(
                        "The actual return type and the specified return type differ!".into(),
                    )?;

                if (match actual_ret { Some(x) => self.is_void(x), None => true }) && !ret.is_void() {
                    return err_type_error!(
                        self,
                        ret.span(),
                        TypeError::Exotic,
                        "The return type is explicitly set to `void`, but the function returns something"
                    );
                }

                self.unify_option(*span, ctx, Some(ret_ty), actual_ret)
                    .help(
                        self,
                        ret.span(),
                        "The actual return type differs from the specified return type".into(),
                    )?;

                // Functions are the only expressions that we cannot return out of when evaluating.
                no_ret(f_ty)
            }

            E::Blob { blob, fields, span, .. } => {
                let blob_ty = self.copy(self.variables[*blob].ty);
                let (blob_name, blob_fields, blob_args) = match self.find_type(blob_ty) {
                    TcType::Blob(name, _, fields, args) => (name, fields, args),
                    TcType::ExternBlob(name, _, _, _, _) => {
                        return err_type_error!(
                            self,
                            *span,
                            TypeError::ExternBlobInstance { name: name.clone() }
                        );
                    }
                    _ => {
                        return err_type_error!(
                            self,
                            *span,
                            TypeError::Violating(self.bake_type(blob_ty)),
                            "A blob type was expected, but the given type isn't a blob"
                        )
                    }
                };

                let mut given_fields: BTreeMap<String, (Span, TyID)> = BTreeMap::new();
                for (key, expr) in fields.iter() {
                    given_fields.insert(key.clone(), (expr.span(), self.push_type(TcType::Unknown)));
                }

                let mut errors = Vec::new();
                for (field, _) in blob_fields.iter() {
                    if !given_fields.contains_key(field) {
                        errors.push(type_error!(
                            self,
                            *span,
                            TypeError::MissingField {
                                blob: blob_name.clone(),
                                field: field.clone(),
                            }
                        ));
                    }
                }

                for (field, (span, _)) in given_fields.iter() {
                    if !blob_fields.contains_key(field) {
                        errors.push(type_error!(
                            self,
                            *span,
                            TypeError::UnknownField {
                                blob: blob_name.clone(),
                                field: field.clone(),
                            }
                        ));
                    }
                }

                if !errors.is_empty() {
                    return Err(errors);
                }

                let fields_and_types = given_fields.clone();
                let given_blob = self.push_type(TcType::Blob(
                    blob_name.clone(),
                    *span,
                    fields_and_types.clone(),
                    blob_args.clone(),
                ));

                // Unify the fields with their real types
                let ret = Some(self.push_type(TcType::Unknown));
                for (key, expr) in fields {
                    let (inner_ret, expr_ty) = self.expression(expr, ctx)?;
                    self.unify_option(*span, ctx, ret, inner_ret)?;
                    self.unify(expr.span(), ctx, expr_ty, fields_and_types[key].1)?;
                }

                with_ret(ret, self.unify(*span, ctx, given_blob, blob_ty)?)
            }

            E::Collection { collection: Collection::Tuple, values, span } => {
                let mut tys = Vec::new();
                let ret = Some(self.push_type(TcType::Unknown));
                for expr in values.iter() {
                    let (inner_ret, ty) = self.expression(expr, ctx)?;
                    tys.push(ty);
                    self.unify_option(*span, ctx, ret, inner_ret)?;
                }
                with_ret(ret, self.push_type(TcType::Tuple(tys)))
            }

            E::Collection { collection: Collection::List, values, span } => {
                let inner_ty = self.push_type(TcType::Unknown);
                let ret = Some(self.push_type(TcType::Unknown));
                for expr in values.iter() {
                    let (e_ret, e) = self.expression(expr, ctx)?;
                    self.unify(*span, ctx, inner_ty, e)?;
                    self.unify_option(*span, ctx, ret, e_ret)?;
                }
                with_ret(ret, self.push_type(TcType::List(inner_ty)))
            }

            E::Float(_, _) => no_ret(self.push_type(TcType::Float)),
            E::Int(_, _) => no_ret(self.push_type(TcType::Int)),
            E::Str(_, _) => no_ret(self.push_type(TcType::Str)),
            E::Bool(_, _) => no_ret(self.push_type(TcType::Bool)),
            E::Nil(_) => no_ret(self.push_type(TcType::Nil)),
        }?;
        // TODO[ed]: Don't agressively copy function! D:
        match self.find_type(expr) {
            TcType::Function { .. } => with_ret(expr_ret, self.copy(expr)),
            _ => with_ret(expr_ret, expr),
        }
    }
    #[verifier::external_body]
    fn resolve_type(&mut self, ctx: TypeCtx, ty: &Type) -> TypeResult<TyID> { unimplemented!() }
    #[verifier::external_body]
    fn inner_resolve_type(&mut self, ctx: TypeCtx, ty: &Type, seen: &mut HashMap<String, TyID>) -> TypeResult<TyID> { unimplemented!() }
    #[verifier::external_body]
    fn check_constraints(&mut self, span: Span, ctx: TypeCtx, a: TyID) -> TypeResult<()> { unimplemented!() }
    #[verifier::external_body]
    fn add_constraint(&mut self, a: TyID, span: Span, constraint: Constraint) { unimplemented!() }
    #[verifier::external_body]
    fn bake_type(&mut self, a: TyID) -> RuntimeType { unimplemented!() }
    #[verifier::external_body]
    fn copy(&mut self, ty: TyID) -> TyID { unimplemented!() }
    #[verifier::external_body]
    fn span_file(&self, span: &Span) -> FileOrLib { unimplemented!() }

    fn push_type(&mut self, ty: TcType) -> TyID {
        let ty_id = TyID(self.types.len());
        self.types.push(TypeNode {
            ty,
            parent: None,
            size: 1,
            constraints: BTreeMap::new(),
        });
        ty_id
    }

    #[verifier::exec_allows_no_decreases_clause]
    fn type_from_function(
        &mut self,
        ctx: TypeCtx,
        params: &[(String, usize, Span, ResolverType)],
        ret: &ResolverType,
        pure: bool,
    ) -> TypeResult<(TyID, TyID)> {
        let mut args = Vec::new();
        let mut seen = HashMap::new();
        for (_name, var, span, ty) in params.iter() {
            let var_ty = self.variables[*var].ty;
            let ty = self.inner_resolve_type(ctx, &ty, &mut seen)?;
            args.push(self.unify(*span, ctx, var_ty, ty)?);
        }
        let ret = self.inner_resolve_type(ctx, &ret, &mut seen)?;
        let purity = if pure { Purity::Pure } else { Purity::Impure };
        let f = self.push_type(TcType::Function(args, ret, purity));
        Ok((f, ret))
    }

    #[verifier::exec_allows_no_decreases_clause]
    fn definition(&mut self, statement: &Statement, ctx: TypeCtx) -> TypeResult<Option<TyID>> {
        use Expression as E;
        use Statement as S;
        if let S::Definition { var, ty, value, span, kind, .. } = statement {
            if ctx.inside_pure && !kind.immutable() {
                return err_type_error!(
                    self,
                    *span,
                    TypeError::Impurity,
                    "Cannot make mutable declarations in pure functions"
                );
            }
            let var_ty = self.variables[*var].ty;
            if let E::Function { params, ret, pure, .. } = value {
                let (f_ty, _) = self.type_from_function(ctx, params, ret, *pure)?;
                self.unify(*span, ctx, var_ty, f_ty)?;
            }
            let ty = self.resolve_type(ctx, ty)?;
            self.add_constraint(ty, *span, Constraint::Variable);
            self.unify(*span, ctx, var_ty, ty)?;
            // TODO(ed): Make sure the option is void or none - you cannot return otherwise.
            // But this might be caught somewhere else?
            let (value_ret, value_ty) = self.expression(value, ctx)?;
            self.unify(*span, ctx, var_ty, value_ty)?;
            Ok(value_ret)
        } else {
            unreachable!("Not a definition!");
        }
    }

    #[verifier::exec_allows_no_decreases_clause]
    fn statement(&mut self, statement: &Statement, ctx: TypeCtx) -> TypeResult<Option<TyID>> {
        use Statement as S;
        let span = statement.span();
        let _handle =
            sylt_macro::timed_handle!("typecheck::statement", line_start = span.line_start);
        match &statement {
            S::Ret { value: Some(value), span } => Ok(Some({
                let (ret, value) = self.expression(value, ctx)?;
                match ret {
                    Some(ret) => self.unify(*span, ctx, value, ret)?,
                    None => value,
                }
            })),
            S::Ret { value: None, .. } => Ok(Some(self.push_type(TcType::Void))),

            S::Block { statements, span } => {
                let (ret, _expr) = self.expression_block(*span, statements, ctx)?;
                Ok(ret)
            }

            S::StatementExpression { value, .. } => Ok(self.expression(&value, ctx)?.0),

            S::Assignment { op, target, value, span } => {
                self.can_assign(*span, target)?;

                if ctx.inside_pure {
                    return err_type_error!(
                        self,
                        *span,
                        TypeError::Exotic,
                        "Cannot make assignments in pure functions"
                    );
                }

                let (expression_ret, expression_ty) = self.expression(&value, ctx)?;
                let (target_ret, target_ty) = self.expression(&target, ctx)?;
                match op {
                    BinOp::And
                    | BinOp::AssertEq
                    | BinOp::Equals
                    | BinOp::Greater
                    | BinOp::GreaterEqual
                    | BinOp::Less
                    | BinOp::LessEqual
                    | BinOp::NotEquals
                    | BinOp::Or => {}

                    BinOp::Nop => {}
                    BinOp::Add => {
                        self.add_constraint(expression_ty, *span, Constraint::Add(target_ty));
                        self.add_constraint(target_ty, *span, Constraint::Add(expression_ty));
                    }
                    BinOp::Sub => {
                        self.add_constraint(expression_ty, *span, Constraint::Sub(target_ty));
                        self.add_constraint(target_ty, *span, Constraint::Sub(expression_ty));
                    }
                    BinOp::Mul => {
                        self.add_constraint(expression_ty, *span, Constraint::Mul(target_ty));
                        self.add_constraint(target_ty, *span, Constraint::Mul(expression_ty));
                    }
                    BinOp::Div => { /* Very special case below */ }
                };

                if matches!(op, BinOp::Div) {
                    self.add_constraint(expression_ty, *span, Constraint::DivBot(target_ty));
                    self.add_constraint(target_ty, *span, Constraint::DivRes(target_ty));
                    self.add_constraint(target_ty, *span, Constraint::DivTop(expression_ty));
                    self.check_constraints(*span, ctx, expression_ty)?;
                    self.check_constraints(*span, ctx, target_ty)?;
                } else {
                    self.unify(*span, ctx, expression_ty, target_ty)?;
                }
                self.unify_option(*span, ctx, expression_ret, target_ret)
            }

            S::Definition { .. } => self.definition(statement, ctx),

            S::Loop { condition, body, span } => {
                let (ret, condition) = self.expression(&condition, ctx)?;
                let boolean = self.push_type(TcType::Bool);
                self.unify(*span, ctx, boolean, condition)?;

                let (body_ret, _) = self.expression_block(*span, &body, ctx.enter_loop())?;
                self.unify_option(*span, ctx, ret, body_ret)
            }

            S::Break(span) => {
                if !ctx.inside_loop {
                    err_type_error!(
                        self,
                        *span,
                        TypeError::Exotic,
                        "`break` only works in loops"
                    )
                } else {
                    Ok(None)
                }
            }
            S::Continue(span) => {
                if !ctx.inside_loop {
                    err_type_error!(
                        self,
                        *span,
                        TypeError::Exotic,
                        "`continue` only works in loops"
                    )
                } else {
                    Ok(None)
                }
            }

            S::Unreachable(_) => Ok(None),

            S::Blob { .. } | S::Enum { .. } | S::ExternalDefinition { .. } => {
                unreachable!(
                    "Illegal inner statement at {:?}! Parser should have caught this",
                    span
                )
            }
        }
    }

    #[verifier::exec_allows_no_decreases_clause]
    fn expression_block(
        &mut self,
        span: Span,
        statements: &Vec<Statement>,
        ctx: TypeCtx,
    ) -> TypeResult<(Option<TyID>, Option<TyID>)> {
        let mut ret = None;
        for stmt in statements.iter() {
            let stmt_ret = self.statement(stmt, ctx)?;
            ret = self.unify_option(span, ctx, ret, stmt_ret)?;
        }
        // We typecheck the last statement twice sometimes, doesn't matter though.
        let value = if let Some(Statement::StatementExpression { value, .. }) = statements.last() {
            let (value_ret, value) = self.expression(value, ctx)?;
            ret = self.unify_option(span, ctx, ret, value_ret)?;
            Some(value)
        } else {
            None
        };
        Ok((ret, value))
    }

    #[verifier::exec_allows_no_decreases_clause]
    fn find(&mut self, a_: TyID) -> TyID { let TyID(a) = a_;
        let mut root = a;
        while let Some(TyID(next)) = self.types[root].parent {
            root = next;
        }

        let mut node = a;
        while let Some(TyID(next)) = self.types[node].parent {
            self.types[node].parent = Some(TyID(root));
            node = next;
        }

        TyID(root)
    }

    fn find_node(&mut self, a: TyID) -> &TypeNode {
        let TyID(ta) = self.find(a);
        &self.types[ta]
    }

    fn find_node_mut(&mut self, a: TyID) -> &mut TypeNode {
        let TyID(ta) = self.find(a);
        &mut self.types[ta]
    }

    fn find_type(&mut self, a: TyID) -> TcType {
        self.find_node(a).ty.clone()
    }

    fn is_void(&mut self, a: TyID) -> bool {
        matches!(self.find_type(a), TcType::Void)
    }

    fn union(&mut self, a: TyID, b: TyID) {
        let TyID(a) = self.find(a);
        let TyID(b) = self.find(b);

        if a == b {
            return;
        }

        let (a, b) = if self.types[a].size < self.types[b].size {
            (b, a)
        } else {
            (a, b)
        };

        self.types[b].parent = Some(TyID(a));
        self.types[a].size += self.types[b].size;

        // TODO(ed): Which span should we keep? The one closest to the top? Should we combine them?
        let hoisted_tmp = self.types[b].constraints.clone();
        for (con, span) in hoisted_tmp.iter() {
            self.types[a].constraints.insert(con.clone(), *span);
        }
    }

    #[verifier::exec_allows_no_decreases_clause]
    fn unify_option(
        &mut self,
        span: Span,
        ctx: TypeCtx,
        a: Option<TyID>,
        b: Option<TyID>,
    ) -> TypeResult<Option<TyID>> {
        Ok(match (a, b) {
            (Some(a), Some(b)) => Some(self.unify(span, ctx, a, b)?),
            (Some(a), None) => Some(a),
            (None, Some(b)) => Some(b),
            (None, None) => None,
        })
    }

    #[verifier::exec_allows_no_decreases_clause]
    fn unify(&mut self, span: Span, ctx: TypeCtx, a: TyID, b: TyID) -> TypeResult<TyID> {
        // TODO(ed): Is this worth doing? Or can we eagerly union types?
        // I tried some and it didn't work great, but I might have missed something.
        let mut seen = BTreeSet::new();
        self.sub_unify(span, ctx, a, b, &mut seen)
    }

    #[verifier::exec_allows_no_decreases_clause]
    fn sub_unify(
        &mut self,
        span: Span,
        ctx: TypeCtx,
        a: TyID,
        b: TyID,
        seen: &mut BTreeSet<(TyID, TyID)>,
    ) -> TypeResult<TyID> {
        let a = self.find(a);
        let b = self.find(b);

        if a == b || seen.contains(&(a, b)) {
            return Ok(a);
        }

        // Equivalence is symetrical!
        seen.insert((a, b));
        seen.insert((b, a));

        match (self.find_type(a), self.find_type(b)) {
            (_, TcType::Unknown) => self.find_node_mut(b).ty = self.find_type(a),
            (TcType::Unknown, _) => self.find_node_mut(a).ty = self.find_type(b),

            _ => match (self.find_type(a), self.find_type(b)) {
                (TcType::Ty, TcType::Ty) => {}
                (TcType::Void, TcType::Void) => {}
                (TcType::Nil, TcType::Nil) => {}
                (TcType::Int, TcType::Int) => {}
                (TcType::Float, TcType::Float) => {}
                (TcType::Bool, TcType::Bool) => {}
                (TcType::Str, TcType::Str) => {}

                (TcType::List(a), TcType::List(b)) => {
                    self.sub_unify(span, ctx, a, b, seen)
                        .help_no_span("While checking list".into())?;
                }

                (TcType::Tuple(a), TcType::Tuple(b)) => {
                    if a.len() != b.len() {
                        return err_type_error!(
                            self,
                            span,
                            TypeError::TupleLengthMismatch { lhs: a.len(), rhs: b.len() }
                        );
                    }
                    for (a, b) in a.iter().zip(b.iter()) { let i: usize = opaque_usize();
                        self.sub_unify(span, ctx, *a, *b, seen)
                            .help_no_span(format!("While checking index #{}", i))?;
                    }
                }

                (
                    TcType::Function(a_args, a_ret, a_purity),
                    TcType::Function(b_args, b_ret, b_purity),
                ) => {
                    // TODO: Make sure there is one place this is checked.
                    match (a_purity, b_purity) {
                            (Purity::Undefined, _) |
                            (_, Purity::Undefined) |
                            (Purity::Pure, Purity::Pure) |
                            (Purity::Impure, Purity::Impure) => (),
                            (_, _) => return err_type_error!(
                                self,
                                span,
                                TypeError::Impurity,
                                "Cannot use impure function implementations for pure function declarations"
                            ),
                        }
                    if a_args.len() != b_args.len() {
                        return err_type_error!(
                            self,
                            span,
                            TypeError::WrongArity { got: a_args.len(), expected: b_args.len() }
                        );
                    }
                    for (a, b) in a_args.iter().zip(b_args.iter()) { let i: usize = opaque_usize();
                        self.sub_unify(span, ctx, *a, *b, seen)
                            .help_no_span(format!("While checking argument #{}", i))?;
                    }
                    self.sub_unify(span, ctx, a_ret, b_ret, seen)
                        .help_no_span("While checking return type".into())?;
                }

                (
                    TcType::Blob(a_blob, a_span, a_fields, _),
                    TcType::Blob(b_blob, b_span, b_fields, _),
                ) => {
                    for (a_field, _) in a_fields.iter() {
                        if !b_fields.contains_key(a_field) {
                            return err_type_error!(
                                self,
                                span,
                                TypeError::MissingField {
                                    blob: b_blob.clone(),
                                    field: a_field.clone()
                                }
                            )
                            .help(
                                self,
                                b_span,
                                "Defined here".to_string(),
                            );
                        };
                    }

                    for (b_field, (b_span, b_ty)) in b_fields.iter() {
                        let (_a_span, a_ty) = match a_fields.get(b_field) {
                            Some(b_ty) => *b_ty,
                            None => {
                                return err_type_error!(
                                    self,
                                    span,
                                    TypeError::MissingField {
                                        blob: a_blob.clone(),
                                        field: b_field.clone()
                                    }
                                )
                                .help(
                                    self,
                                    a_span,
                                    "Defined here".to_string(),
                                );
                            }
                        };
                        self.sub_unify(span, ctx, a_ty, *b_ty, seen).help(
                            self,
                            *b_span,
                            format!("While checking field .{}", b_field),
                        )?;
                    }
                }

                (
                    TcType::ExternBlob(_, _, _, a_args, a_id),
                    TcType::ExternBlob(_, _, _, b_args, b_id),
                ) if a_id == b_id => {
                    for (a, b) in a_args.iter().zip(b_args.iter()) { let i: usize = opaque_usize();
                        self.sub_unify(span, ctx, *a, *b, seen)
                            .help_no_span(format!("While checking type argument #{}", i))?;
                    }
                }

                (
                    TcType::Enum(a_name, a_span, a_variants, _),
                    TcType::Enum(b_name, b_span, b_variants, _),
                ) => {
                    for (a_var, _) in a_variants.iter() {
                        if !b_variants.contains_key(a_var) {
                            return err_type_error!(
                                self,
                                span,
                                TypeError::UnknownVariant(b_name.clone(), a_var.clone())
                            )
                            .help(
                                self,
                                b_span,
                                "Defined here".to_string(),
                            );
                        }
                    }
                    for (b_var, (_b_span, b_ty)) in b_variants.iter() {
                        let (a_span, a_ty) = match a_variants.get(b_var) {
                            Some(a_ty) => *a_ty,
                            None => {
                                return err_type_error!(
                                    self,
                                    span,
                                    TypeError::UnknownVariant(a_name.clone(), b_var.clone())
                                )
                                .help(
                                    self,
                                    a_span,
                                    "Defined here".to_string(),
                                );
                            }
                        };
                        self.sub_unify(span, ctx, a_ty, *b_ty, seen).help(
                            self,
                            a_span,
                            format!("While checking variant {}", b_var),
                        )?;
                    }
                }

                _ => {
                    return err_type_error!(
                        self,
                        span,
                        TypeError::Mismatch {
                            got: self.bake_type(a),
                            expected: self.bake_type(b),
                        },
                        "Types don't match"
                    );
                }
            },
        }

        self.union(a, b);

        self.check_constraints(span, ctx, a)?;

        Ok(a)
    }

    fn can_assign(&mut self, span: Span, assignable: &Expression) -> TypeResult<()> {
        use Expression as E;
        match &assignable {
            E::Read { var, span } => {
                if self.variables[*var].kind.immutable() {
                    return err_type_error!(
                        self,
                        *span,
                        TypeError::Assignability,
                        "Cannot assign to constants"
                    );
                }
            }
            E::BlobAccess { .. } | E::Index { .. } => {}

            E::Variant { .. }
            | E::Call { .. }
            | E::BinOp { .. }
            | E::UniOp { .. }
            | E::If { .. }
            | E::Case { .. }
            | E::Function { .. }
            | E::Blob { .. }
            | E::Collection { .. }
            | E::Float(_, _)
            | E::Int(_, _)
            | E::Str(_, _)
            | E::Bool(_, _)
            | E::Nil(_) => {
                return err_type_error!(
                    self,
                    span,
                    TypeError::Assignability,
                    "Can only assign to variables, accesses and indexes"
                );
            }
        }
        Ok(())
    }

    #[verifier::exec_allows_no_decreases_clause]
    fn add(&mut self, span: Span, ctx: TypeCtx, a: TyID, b: TyID) -> TypeResult<()> {
        match (self.find_type(a), self.find_type(b)) {
            (TcType::Unknown, _) | (_, TcType::Unknown) => Ok(()),

            (TcType::Float, TcType::Float) | (TcType::Int, TcType::Int) | (TcType::Str, TcType::Str) => Ok(()),

            (TcType::Tuple(a), TcType::Tuple(b)) if a.len() == b.len() => {
                for (a, b) in a.iter().zip(b.iter()) {
                    self.add(span, ctx, *a, *b)?;
                }
                Ok(())
            }

            _ => err_type_error!(
                self,
                span,
                TypeError::BinOp {
                    lhs: self.bake_type(a),
                    rhs: self.bake_type(b),
                    op: "+".to_string(),
                }
            ),
        }
    }

    #[verifier::exec_allows_no_decreases_clause]
    fn sub(&mut self, span: Span, ctx: TypeCtx, a: TyID, b: TyID) -> TypeResult<()> {
        match (self.find_type(a), self.find_type(b)) {
            (TcType::Unknown, _) | (_, TcType::Unknown) => Ok(()),

            (TcType::Float, TcType::Float) | (TcType::Int, TcType::Int) => Ok(()),

            (TcType::Tuple(a), TcType::Tuple(b)) if a.len() == b.len() => {
                for (a, b) in a.iter().zip(b.iter()) {
                    self.sub(span, ctx, *a, *b)?;
                }
                Ok(())
            }

            _ => err_type_error!(
                self,
                span,
                TypeError::BinOp {
                    lhs: self.bake_type(a),
                    rhs: self.bake_type(b),
                    op: "-".to_string(),
                }
            ),
        }
    }

    #[verifier::exec_allows_no_decreases_clause]
    fn mul(&mut self, span: Span, ctx: TypeCtx, a: TyID, b: TyID) -> TypeResult<()> {
        match (self.find_type(a), self.find_type(b)) {
            (TcType::Unknown, _) | (_, TcType::Unknown) => Ok(()),

            (TcType::Float, TcType::Float) | (TcType::Int, TcType::Int) => Ok(()),

            (TcType::Tuple(a), TcType::Tuple(b)) if a.len() == b.len() => {
                for (a, b) in a.iter().zip(b.iter()) {
                    self.mul(span, ctx, *a, *b)?;
                }
                Ok(())
            }

            _ => err_type_error!(
                self,
                span,
                TypeError::BinOp {
                    lhs: self.bake_type(a),
                    rhs: self.bake_type(b),
                    op: "*".to_string(),
                }
            ),
        }
    }

    #[verifier::exec_allows_no_decreases_clause]
    fn div(&mut self, span: Span, ctx: TypeCtx, a: TyID, b: TyID) -> TypeResult<()> {
        match (self.find_type(a), self.find_type(b)) {
            (TcType::Unknown, _) => Ok(()),
            (_, TcType::Unknown) => Ok(()),

            (TcType::Float | TcType::Int, TcType::Float | TcType::Int) => Ok(()),

            (TcType::Tuple(a), TcType::Float | TcType::Int) => {
                for a in a.iter() {
                    self.div(span, ctx, *a, b)?;
                }
                Ok(())
            }

            (TcType::Tuple(a), TcType::Tuple(b)) if a.len() == b.len() => {
                for (a, b) in a.iter().zip(b.iter()) {
                    self.div(span, ctx, *a, *b)?;
                }
                Ok(())
            }

            _ => err_type_error!(
                self,
                span,
                TypeError::BinOp {
                    lhs: self.bake_type(a),
                    rhs: self.bake_type(b),
                    op: "/".to_string(),
                }
            ),
        }
    }

    #[verifier::exec_allows_no_decreases_clause]
    fn equ(&mut self, span: Span, ctx: TypeCtx, a: TyID, b: TyID) -> TypeResult<()> {
        // Equal types all support equality!
        self.unify(span, ctx, a, b).map(|_w| ())
    }

    #[verifier::exec_allows_no_decreases_clause]
    fn cmp(&mut self, span: Span, ctx: TypeCtx, a: TyID, b: TyID) -> TypeResult<()> {
        match (self.find_type(a), self.find_type(b)) {
            (TcType::Unknown, _) | (_, TcType::Unknown) => Ok(()),

            (TcType::Float, TcType::Float)
            | (TcType::Int, TcType::Int)
            | (TcType::Int, TcType::Float)
            | (TcType::Float, TcType::Int)
            | (TcType::Str, TcType::Str) => Ok(()),

            (TcType::Tuple(a), TcType::Tuple(b)) if a.len() == b.len() => {
                for (a, b) in a.iter().zip(b.iter()) {
                    self.cmp(span, ctx, *a, *b)?;
                }
                Ok(())
            }

            // TODO(ed): Maybe sets?
            _ => err_type_error!(
                self,
                span,
                TypeError::BinOp {
                    lhs: self.bake_type(a),
                    rhs: self.bake_type(b),
                    op: "<".to_string(),
                }
            ),
        }
    }

    #[verifier::exec_allows_no_decreases_clause]
    fn constant_index(
        &mut self,
        span: Span,
        ctx: TypeCtx,
        a: TyID,
        index: i64,
        ret: TyID,
    ) -> TypeResult<()> {
        match self.find_type(a) {
            TcType::Unknown => Ok(()),
            TcType::Tuple(tys) => match tys.get(index as usize) {
                Some(ty) => self.unify(span, ctx, *ty, ret).map(|_w| ()),
                None => err_type_error!(
                    self,
                    span,
                    TypeError::TupleIndexOutOfRange { got: index, length: tys.len() }
                ),
            },

            _ => err_type_error!(
                self,
                span,
                TypeError::Violating(self.bake_type(a)),
                "This type cannot be indexed with the constant index {}\n{}",
                index,
                "Only tuples can be indexed like this"
            ),
        }
    }
}

} // verus!
fn main() {}
