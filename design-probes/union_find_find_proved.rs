use vstd::prelude::*;
verus! {

#[derive(Clone, Copy, PartialEq, Eq)]
pub struct TyID(pub usize);

pub struct TypeNode {
    pub ty: u64,            // placeholder payload
    pub parent: Option<TyID>,
    pub size: usize,
}

pub struct TypeChecker {
    pub types: Vec<TypeNode>,
}

// ---------------- spec ----------------
pub open spec fn hok(ts: Seq<TypeNode>, h: Seq<nat>) -> bool {
    &&& h.len() == ts.len()
    &&& forall|i: int| 0 <= i < ts.len() ==> match (#[trigger] ts[i]).parent {
            Some(p) => (p.0 as int) < ts.len() && h[p.0 as int] < h[i],
            None => true,
        }
}

pub open spec fn wf(ts: Seq<TypeNode>) -> bool { exists|h: Seq<nat>| hok(ts, h) }

pub open spec fn rep(ts: Seq<TypeNode>, h: Seq<nat>, i: int) -> int
    decreases h[i] when hok(ts, h) && 0 <= i < ts.len()
{
    match ts[i].parent {
        Some(p) => rep(ts, h, p.0 as int),
        None => i,
    }
}

pub open spec fn the_h(ts: Seq<TypeNode>) -> Seq<nat> { choose|h: Seq<nat>| hok(ts, h) }
pub open spec fn rep0(ts: Seq<TypeNode>, i: int) -> int { rep(ts, the_h(ts), i) }

proof fn lemma_rep_props(ts: Seq<TypeNode>, h: Seq<nat>, i: int)
    requires hok(ts, h), 0 <= i < ts.len()
    ensures
        0 <= rep(ts, h, i) < ts.len(),
        ts[rep(ts, h, i)].parent is None,
        rep(ts, h, i) != i ==> h[rep(ts, h, i)] < h[i],
        rep(ts, h, i) == i <==> ts[i].parent is None,
    decreases h[i]
{
    match ts[i].parent {
        Some(p) => { lemma_rep_props(ts, h, p.0 as int); }
        None => {}
    }
}

proof fn lemma_rep_indep(ts: Seq<TypeNode>, h1: Seq<nat>, h2: Seq<nat>, i: int)
    requires hok(ts, h1), hok(ts, h2), 0 <= i < ts.len()
    ensures rep(ts, h1, i) == rep(ts, h2, i)
    decreases h1[i]
{
    match ts[i].parent {
        Some(p) => { lemma_rep_indep(ts, h1, h2, p.0 as int); }
        None => {}
    }
}

// same parents except at `n`, whose parent becomes `r` = rep(n): all reps unchanged
proof fn lemma_compress(ts: Seq<TypeNode>, ts2: Seq<TypeNode>, h: Seq<nat>, n: int, ru: usize, i: int)
    requires
        hok(ts, h), hok(ts2, h), ts.len() == ts2.len(), 0 <= n < ts.len(), 0 <= i < ts.len(),
        ru as int == rep(ts, h, n), ts[n].parent is Some,
        ts2[n].parent == Some(TyID(ru)),
        forall|j: int| 0 <= j < ts.len() && j != n ==> ts2[j].parent == ts[j].parent,
    ensures rep(ts2, h, i) == rep(ts, h, i)
    decreases h[i]
{
    let r = ru as int;
    lemma_rep_props(ts, h, n);
    if i == n {
        // ts2: n -> r, and r is a root in ts (so in ts2 too, since r != n)
        assert(ts[r].parent is None);
        assert(r != n);
        assert(ts2[r].parent is None);
        assert(rep(ts2, h, r) == r);
        assert(rep(ts2, h, n) == rep(ts2, h, r));
    } else {
        match ts[i].parent {
            Some(p) => { lemma_compress(ts, ts2, h, n, ru, p.0 as int); }
            None => {}
        }
    }
}

impl TypeChecker {
    pub open spec fn tsv(&self) -> Seq<TypeNode> { self.types@ }

    fn find(&mut self, a_: TyID) -> (res: TyID)
        requires wf(old(self).types@), (a_.0 as int) < old(self).types.len(),
        ensures
            final(self).types.len() == old(self).types.len(),
            wf(final(self).types@),
            (res.0 as int) < final(self).types.len(),
            final(self).types@[res.0 as int].parent is None,
            res.0 as int == rep0(old(self).types@, a_.0 as int),
            forall|i: int| 0 <= i < old(self).types.len() ==> rep0(final(self).types@, i) == rep0(old(self).types@, i),
            forall|i: int| 0 <= i < old(self).types.len() ==>
                (#[trigger] final(self).types@[i]).ty == old(self).types@[i].ty && final(self).types@[i].size == old(self).types@[i].size,
    {
        let TyID(a) = a_;
        let ghost ts0 = self.types@;
        let ghost h = the_h(ts0);
        let mut root = a;
        while let Some(TyID(next)) = self.types[root].parent
            invariant
                self.types@ == ts0, hok(ts0, h), (root as int) < ts0.len(), (a as int) < ts0.len(),
                rep(ts0, h, root as int) == rep(ts0, h, a as int),
            ensures ts0[root as int].parent is None,
            decreases h[root as int]
        {
            root = next;
        }
        proof { lemma_rep_props(ts0, h, root as int); lemma_rep_props(ts0, h, a as int); }
        assert(root as int == rep(ts0, h, a as int));

        let mut node = a;
        while let Some(TyID(next)) = self.types[node].parent
            invariant
                self.types.len() == ts0.len(), hok(ts0, h), hok(self.types@, h),
                (node as int) < ts0.len(), (root as int) < ts0.len(),
                rep(ts0, h, node as int) == root as int,
                ts0[root as int].parent is None, self.types@[root as int].parent is None,
                forall|i: int| 0 <= i < ts0.len() ==> rep(self.types@, h, i) == rep(ts0, h, i),
                forall|i: int| 0 <= i < ts0.len() ==>
                    (#[trigger] self.types@[i]).ty == ts0[i].ty && self.types@[i].size == ts0[i].size,
            decreases h[node as int]
        {
            let ghost before = self.types@;
            proof { lemma_rep_props(before, h, node as int); }
            self.types[node].parent = Some(TyID(root));
            proof {
                let after = self.types@;
                assert forall|i: int| 0 <= i < ts0.len() implies rep(after, h, i) == rep(ts0, h, i) by {
                    lemma_compress(before, after, h, node as int, root, i);
                }
            }
            node = next;
        }
        proof {
            let tsf = self.types@;
            assert(wf(tsf));
            assert forall|i: int| 0 <= i < ts0.len() implies rep0(tsf, i) == rep0(ts0, i) by {
                lemma_rep_indep(tsf, the_h(tsf), h, i);
            }
        }
        TyID(root)
    }
}

} // verus!
fn main() {}
