use vstd::prelude::*;
verus! {

#[derive(Clone, Copy, PartialEq, Eq)]
pub struct TyID(pub usize);

pub struct TypeNode {
    pub ty: u64,            // placeholder payload
    pub parent: Option<TyID>,
    pub size: usize,
}

pub struct TypeChecker {
    pub types: Vec<TypeNode>,
}

// ---------------- spec ----------------
pub open spec fn hok(ts: Seq<TypeNode>, h: Seq<nat>) -> bool {
    &&& h.len() == ts.len()
    &&& forall|i: int| 0 <= i < ts.len() ==> match (#[trigger] ts[i]).parent {
            Some(p) => (p.0 as int) < ts.len() && h[p.0 as int] < h[i],
            None => true,
        }
}

pub open spec fn wf(ts: Seq<TypeNode>) -> bool { exists|h: Seq<nat>| hok(ts, h) }

pub open spec fn rep(ts: Seq<TypeNode>, h: Seq<nat>, i: int) -> int
    decreases h[i] when hok(ts, h) && 0 <= i < ts.len()
{
    match ts[i].parent {
        Some(p) => rep(ts, h, p.0 as int),
        None => i,
    }
}

pub open spec fn the_h(ts: Seq<TypeNode>) -> Seq<nat> { choose|h: Seq<nat>| hok(ts, h) }
pub open spec fn rep0(ts: Seq<TypeNode>, i: int) -> int { rep(ts, the_h(ts), i) }

proof fn lemma_rep_props(ts: Seq<TypeNode>, h: Seq<nat>, i: int)
    requires hok(ts, h), 0 <= i < ts.len()
    ensures
        0 <= rep(ts, h, i) < ts.len(),
        ts[rep(ts, h, i)].parent is None,
        rep(ts, h, i) != i ==> h[rep(ts, h, i)] < h[i],
        rep(ts, h, i) == i <==> ts[i].parent is None,
    decreases h[i]
{
    match ts[i].parent {
        Some(p) => { lemma_rep_props(ts, h, p.0 as int); }
        None => {}
    }
}

proof fn lemma_rep_indep(ts: Seq<TypeNode>, h1: Seq<nat>, h2: Seq<nat>, i: int)
    requires hok(ts, h1), hok(ts, h2), 0 <= i < ts.len()
    ensures rep(ts, h1, i) == rep(ts, h2, i)
    decreases h1[i]
{
    match ts[i].parent {
        Some(p) => { lemma_rep_indep(ts, h1, h2, p.0 as int); }
        None => {}
    }
}

// same parents except at `n`, whose parent becomes `r` = rep(n): all reps unchanged
proof fn lemma_compress(ts: Seq<TypeNode>, ts2: Seq<TypeNode>, h: Seq<nat>, n: int, ru: usize, i: int)
    requires
        hok(ts, h), hok(ts2, h), ts.len() == ts2.len(), 0 <= n < ts.len(), 0 <= i < ts.len(),
        ru as int == rep(ts, h, n), ts[n].parent is Some,
        ts2[n].parent == Some(TyID(ru)),
        forall|j: int| 0 <= j < ts.len() && j != n ==> ts2[j].parent == ts[j].parent,
    ensures rep(ts2, h, i) == rep(ts, h, i)
    decreases h[i]
{
    let r = ru as int;
    lemma_rep_props(ts, h, n);
    if i == n {
        // ts2: n -> r, and r is a root in ts (so in ts2 too, since r != n)
        assert(ts[r].parent is None);
        assert(r != n);
        assert(ts2[r].parent is None);
        assert(rep(ts2, h, r) == r);
        assert(rep(ts2, h, n) == rep(ts2, h, r));
    } else {
        match ts[i].parent {
            Some(p) => { lemma_compress(ts, ts2, h, n, ru, p.0 as int); }
            None => {}
        }
    }
}



pub open spec fn merged_into(ts0: Seq<TypeNode>, ts3: Seq<TypeNode>, ra: int, rb: int, w: int) -> bool {
    (w == ra || w == rb) && forall|i: int| 0 <= i < ts0.len() ==>
        #[trigger] rep0(ts3, i) == (if rep0(ts0, i) == ra || rep0(ts0, i) == rb { w } else { rep0(ts0, i) })
}

pub open spec fn shift_h(ts: Seq<TypeNode>, h: Seq<nat>, a: int, b: int) -> Seq<nat> {
    Seq::new(h.len(), |i: int| if rep(ts, h, i) == b { (h[i] + h[a] + 1) as nat } else { h[i] })
}

// link root b under root a (a != b): heights of b's class are shifted above a
proof fn lemma_link(ts: Seq<TypeNode>, ts2: Seq<TypeNode>, h: Seq<nat>, a: usize, b: usize, i: int)
    requires
        hok(ts, h), ts.len() == ts2.len(), (a as int) < ts.len(), (b as int) < ts.len(), a != b,
        ts[a as int].parent is None, ts[b as int].parent is None,
        ts2[b as int].parent == Some(TyID(a)),
        forall|j: int| 0 <= j < ts.len() && j != b as int ==> (#[trigger] ts2[j]).parent == ts[j].parent,
        0 <= i < ts.len(),
    ensures
        hok(ts2, shift_h(ts, h, a as int, b as int)),
        rep(ts2, shift_h(ts, h, a as int, b as int), i) == (if rep(ts, h, i) == b as int { a as int } else { rep(ts, h, i) }),
    decreases h[i]
{
    let h2 = shift_h(ts, h, a as int, b as int);
    // hok(ts2, h2)
    assert forall|j: int| 0 <= j < ts2.len() implies match (#[trigger] ts2[j]).parent {
            Some(p) => (p.0 as int) < ts2.len() && h2[p.0 as int] < h2[j],
            None => true,
        } by {
        lemma_rep_props(ts, h, j);
        if j == b as int {
            lemma_rep_props(ts, h, a as int);
            assert(rep(ts, h, a as int) == a as int);
            assert(rep(ts, h, b as int) == b as int);
        } else {
            match ts[j].parent {
                Some(p) => {
                    lemma_rep_props(ts, h, p.0 as int);
                    assert(rep(ts, h, j) == rep(ts, h, p.0 as int));
                }
                None => {}
            }
        }
    }
    assert(hok(ts2, h2));
    // rep
    lemma_rep_props(ts, h, i);
    if i == b as int {
        lemma_rep_props(ts, h, a as int);
        assert(ts2[a as int].parent is None);
        assert(rep(ts2, h2, a as int) == a as int);
        assert(rep(ts2, h2, b as int) == rep(ts2, h2, a as int));
    } else {
        match ts[i].parent {
            Some(p) => {
                lemma_link(ts, ts2, h, a, b, p.0 as int);
                assert(rep(ts, h, i) == rep(ts, h, p.0 as int));
                assert(rep(ts2, h2, i) == rep(ts2, h2, p.0 as int));
            }
            None => {
                assert(rep(ts2, h2, i) == i);
            }
        }
    }
}

impl TypeChecker {
    pub open spec fn tsv(&self) -> Seq<TypeNode> { self.types@ }

    fn find(&mut self, a_: TyID) -> (res: TyID)
        requires wf(old(self).types@), (a_.0 as int) < old(self).types.len(),
        ensures
            final(self).types.len() == old(self).types.len(),
            wf(final(self).types@),
            (res.0 as int) < final(self).types.len(),
            final(self).types@[res.0 as int].parent is None,
            res.0 as int == rep0(old(self).types@, a_.0 as int),
            forall|i: int| 0 <= i < old(self).types.len() ==> rep0(final(self).types@, i) == rep0(old(self).types@, i),
            forall|i: int| 0 <= i < old(self).types.len() ==>
                (#[trigger] final(self).types@[i]).ty == old(self).types@[i].ty && final(self).types@[i].size == old(self).types@[i].size,
    {
        let TyID(a) = a_;
        let ghost ts0 = self.types@;
        let ghost h = the_h(ts0);
        let mut root = a;
        while let Some(TyID(next)) = self.types[root].parent
            invariant
                self.types@ == ts0, hok(ts0, h), (root as int) < ts0.len(), (a as int) < ts0.len(),
                rep(ts0, h, root as int) == rep(ts0, h, a as int),
            ensures ts0[root as int].parent is None,
            decreases h[root as int]
        {
            root = next;
        }
        proof { lemma_rep_props(ts0, h, root as int); lemma_rep_props(ts0, h, a as int); }
        assert(root as int == rep(ts0, h, a as int));

        let mut node = a;
        while let Some(TyID(next)) = self.types[node].parent
            invariant
                self.types.len() == ts0.len(), hok(ts0, h), hok(self.types@, h),
                (node as int) < ts0.len(), (root as int) < ts0.len(),
                rep(ts0, h, node as int) == root as int,
                ts0[root as int].parent is None, self.types@[root as int].parent is None,
                forall|i: int| 0 <= i < ts0.len() ==> rep(self.types@, h, i) == rep(ts0, h, i),
                forall|i: int| 0 <= i < ts0.len() ==>
                    (#[trigger] self.types@[i]).ty == ts0[i].ty && self.types@[i].size == ts0[i].size,
            decreases h[node as int]
        {
            let ghost before = self.types@;
            proof { lemma_rep_props(before, h, node as int); }
            self.types[node].parent = Some(TyID(root));
            proof {
                let after = self.types@;
                assert forall|i: int| 0 <= i < ts0.len() implies rep(after, h, i) == rep(ts0, h, i) by {
                    lemma_compress(before, after, h, node as int, root, i);
                }
            }
            node = next;
        }
        proof {
            let tsf = self.types@;
            assert(wf(tsf));
            assert forall|i: int| 0 <= i < ts0.len() implies rep0(tsf, i) == rep0(ts0, i) by {
                lemma_rep_indep(tsf, the_h(tsf), h, i);
            }
        }
        TyID(root)
    }

    fn union(&mut self, a: TyID, b: TyID)
        requires wf(old(self).types@), (a.0 as int) < old(self).types.len(), (b.0 as int) < old(self).types.len(),
            old(self).types@[rep0(old(self).types@, a.0 as int)].size + old(self).types@[rep0(old(self).types@, b.0 as int)].size <= usize::MAX,
        ensures
            final(self).types.len() == old(self).types.len(),
            wf(final(self).types@),
            forall|i: int| 0 <= i < old(self).types.len() ==> (#[trigger] final(self).types@[i]).ty == old(self).types@[i].ty,
            exists|w: int| #[trigger] merged_into(old(self).types@, final(self).types@, rep0(old(self).types@, a.0 as int), rep0(old(self).types@, b.0 as int), w),
    {
        let ghost ts0 = self.types@;
        let ghost a0 = a; let ghost b0 = b;
        let TyID(a) = self.find(a);
        let ghost ts1 = self.types@;
        let TyID(b) = self.find(b);
        let ghost ts2 = self.types@;
        proof {
            assert(a as int == rep0(ts0, a0.0 as int));
            assert(b as int == rep0(ts1, b0.0 as int));
            assert(rep0(ts1, b0.0 as int) == rep0(ts0, b0.0 as int));
            // a is still a root after the second find
            assert(rep0(ts1, a as int) == rep0(ts0, a as int));
            lemma_rep_props(ts0, the_h(ts0), a0.0 as int);
            lemma_rep_props(ts0, the_h(ts0), a as int);
            lemma_rep_props(ts1, the_h(ts1), a as int);
            lemma_rep_props(ts2, the_h(ts2), a as int);
            assert(rep0(ts2, a as int) == rep0(ts1, a as int));
        }

        if a == b {
            proof { assert(merged_into(ts0, ts2, rep0(ts0, a0.0 as int), rep0(ts0, b0.0 as int), a as int)); }
            return;
        }

        let (a, b) = if self.types[a].size < self.types[b].size {
            (b, a)
        } else {
            (a, b)
        };

        self.types[b].parent = Some(TyID(a));
        self.types[a].size += self.types[b].size;
        proof {
            let ts3 = self.types@;
            let h = the_h(ts2);
            assert forall|i: int| 0 <= i < ts2.len() implies
                rep(ts3, shift_h(ts2, h, a as int, b as int), i) == (if rep(ts2, h, i) == b as int { a as int } else { rep(ts2, h, i) })
                && hok(ts3, shift_h(ts2, h, a as int, b as int)) by {
                lemma_link(ts2, ts3, h, a, b, i);
            }
            lemma_link(ts2, ts3, h, a, b, 0);
            assert(wf(ts3));
            assert forall|i: int| 0 <= i < ts0.len() implies
                #[trigger] rep0(ts3, i) == (if rep0(ts0, i) == rep0(ts0, a0.0 as int) || rep0(ts0, i) == rep0(ts0, b0.0 as int) { a as int } else { rep0(ts0, i) }) by {
                lemma_rep_indep(ts3, the_h(ts3), shift_h(ts2, h, a as int, b as int), i);
            }
            assert(merged_into(ts0, ts3, rep0(ts0, a0.0 as int), rep0(ts0, b0.0 as int), a as int));
        }
    }
}

} // verus!
fn main() {}
