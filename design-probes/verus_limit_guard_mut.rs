use vstd::prelude::*;
verus! {
pub struct S { pub x: u64, pub v: Vec<u64> }
impl S {
    fn f(&mut self) ensures final(self).x == old(self).x { }
    fn c1(&mut self, x: Option<u64>, y: u64) -> (r: bool) ensures final(self).x == old(self).x {
        match x { Some(k) if k == y => { self.f(); true }, _ => false }
    }
    fn c4(&mut self, x: Option<u64>, y: u64) -> (r: bool) ensures final(self).x == old(self).x {
        match x { Some(k) if k == y => { self.v.push(1); true }, _ => false }
    }
    fn c5(&mut self, x: Option<u64>, y: u64) -> (r: bool) ensures final(self).x == old(self).x {
        match x { Some(k) if k == y => { self.x = self.x; true }, _ => false }
    }
    fn c6(&mut self, x: Option<u64>, y: u64) -> (r: bool) ensures final(self).x == old(self).x {
        if let Some(k) = x { if k == y { self.f(); return true; } }
        false
    }
}
fn c7(s: &mut S, x: Option<u64>, y: u64) -> (r: bool) ensures final(s).x == old(s).x {
    match x { Some(k) if k == y => { s.f(); true }, _ => false }
}
} // verus!
fn main() {}
