use vstd::prelude::*;
verus! {
fn z(a: &Vec<u64>, b: &Vec<u64>) -> (r: bool)
    requires a.len() == b.len()
    ensures r ==> forall|i: int| 0 <= i < a.len() ==> a[i] == b[i]
{
    let ghost xs = a@; let ghost ys = b@;
    for (x, y) in it: a.iter().zip(b.iter())
        invariant
            xs == a@, ys == b@,
            forall|i: int| 0 <= i < it.index@ ==> xs[i] == ys[i],
    {
        assert(it.index@ < xs.len());
        assert(*x == xs[it.index@]);
        assert(*y == ys[it.index@]);
        if *x != *y { return false; }
    }
    true
}
} // verus!
fn main() {}
