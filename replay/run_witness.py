#!/usr/bin/env python3
"""builds the witness crate against the current /repo working tree (offline) and runs it.
usage: run_witness.py <property> <json list of failed obligations>
       run_witness.py --replay <json witness>"""
import json, os, shutil, subprocess, sys
HERE = os.path.dirname(os.path.abspath(__file__))
VERIF = os.path.dirname(HERE)
REPO = os.environ.get('SYLT_REPO', '/repo')
FAMILIES = {'C13': ['prec'], 'C03': ['lits', 'shape', 'deferred', 'rets', 'void', 'generics', 'ops'], 'C04': ['pure'], 'C05': ['shape', 'case', 'blob', 'lits', 'start'], 'C09': ['scope'],
            'C02': ['scope', 'deferred', 'lits', 'rets', 'ops'], 'C07': ['nopanic', 'scope'], 'C14': ['sugar', 'prec'], 'C11': ['order']}

def build():
    bdir = os.path.join(VERIF, '.cache', 'replay-build')
    os.makedirs(bdir, exist_ok=True)
    open(os.path.join(bdir, 'Cargo.toml'), 'w').write(open(os.path.join(HERE, 'Cargo.toml.in')).read().replace('@REPO@', REPO))
    if os.path.exists(os.path.join(REPO, 'Cargo.lock')):
        shutil.copy(os.path.join(REPO, 'Cargo.lock'), os.path.join(bdir, 'Cargo.lock'))
    src = os.path.join(bdir, 'src')
    if os.path.islink(src) or os.path.exists(src):
        if os.path.islink(src): os.unlink(src)
        else: shutil.rmtree(src)
    shutil.copytree(os.path.join(HERE, 'src'), src)
    env = dict(os.environ, CARGO_NET_OFFLINE='true', CARGO_TARGET_DIR=os.path.join(VERIF, '.cache', 'replay-target'))
    env.pop('RUSTUP_TOOLCHAIN', None)
    p = subprocess.run(['cargo', 'build', '--offline', '-q'], cwd=bdir, env=env, capture_output=True, text=True)
    if p.returncode != 0:
        # the lock file of the repository may not fit this crate: retry without it
        try: os.unlink(os.path.join(bdir, 'Cargo.lock'))
        except OSError: pass
        p = subprocess.run(['cargo', 'build', '--offline', '-q'], cwd=bdir, env=env, capture_output=True, text=True)
    if p.returncode != 0:
        raise SystemExit('witness crate does not build: ' + p.stderr[-1500:])
    return os.path.join(VERIF, '.cache', 'replay-target', 'debug', 'sylt-witness')

def main():
    if sys.argv[1] == '--replay':
        w = json.loads(sys.argv[2])
        exe = build()
        p = subprocess.run([exe, 'replay', w['family'], w['input']], capture_output=True, text=True, timeout=240)
        print(p.stdout.strip())
        sys.exit(p.returncode)
    prop = sys.argv[1]
    fams = FAMILIES.get(prop, [])
    if not fams:
        print(json.dumps({'input': None, 'note': 'no witness family for this property'}))
        return
    exe = build()
    p = subprocess.run([exe, 'search'] + fams, capture_output=True, text=True, timeout=240)
    line = p.stdout.strip().split('\n')[-1] if p.stdout.strip() else '{}'
    if p.returncode < 0 or (p.returncode != 0 and not p.stdout.strip()):
        # the search process itself died (stack overflow, abort): the input it was compiling is the witness
        tries = [l for l in p.stderr.split('\n') if l.startswith('TRY ')]
        if tries:
            fam, esc = tries[-1][4:].split(' ', 1)
            src = esc.encode().decode('unicode_escape')
            line = json.dumps({'family': fam, 'input': src, 'observed': 'the compiler process died (return code %d: stack overflow or abort) while compiling this input' % p.returncode, 'inputs_tried': len(tries)})
    d = json.loads(line)
    d['families'] = fams
    d['how'] = 'inputs from the contract\'s finite domain were compiled with the real crates of the working tree (replay/src/main.rs)'
    print(json.dumps(d))

if __name__ == '__main__':
    main()
