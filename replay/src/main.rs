//! Witness search and replay against the REAL sylt crates (path dependencies on the working tree).
//!
//! `witness search <family>...`  runs generated inputs of the given families through the public
//!                               API and prints one JSON line for the first input whose outcome
//!                               differs from what the specification tables prescribe.
//! `witness replay <family> <input>` re-runs one stored input; exit 1 while it still misbehaves.
//!
//! The search is only ever started after the verifier reported a failed obligation; it adds a
//! concrete input to that report and never raises or silences a violation by itself.
use std::path::{Path, PathBuf};
use sylt_common::error::Error;
use sylt_parser::{AssignableKind, Expression, ExpressionKind, StatementKind};

#[derive(Debug, PartialEq, Clone, Copy)]
enum Outcome {
    Accept,
    Reject,
    Panic,
    /// no result within the time limit: the compiler hangs (or recurses without end) on this input
    Hang,
}

fn compile_bytes(src: &str) -> Option<Vec<u8>> {
    let src = src.to_string();
    std::panic::catch_unwind(move || {
        let path = PathBuf::from("/witness/main.sy");
        let reader = |p: &Path| -> Result<String, Error> {
            if p == Path::new("/witness/main.sy") { Ok(src.clone()) } else { Err(Error::FileNotFound(p.to_path_buf())) }
        };
        let tree = sylt_parser::tree(&path, reader, true).ok()?;
        let mut out: Vec<u8> = Vec::new();
        sylt_compiler::compile(&mut out, tree, None).ok()?;
        Some(out)
    }).ok().flatten()
}

// C14: pairs of programs that differ only in sugar must compile to the same bytes
fn sugar_pairs() -> Vec<(String, String)> {
    let wrap = |body: &str| format!("add :: fn a: int, b: int -> int do\n    ret a + b\nend\ninc :: fn a: int -> int do\n    ret a + 1\nend\nstart :: fn do\n{}\nend\n", body);
    vec![
        (wrap("    x := 1 -> add(2)"), wrap("    x := add(1, 2)")),
        (wrap("    x := 1 -> add(2) -> add(3)"), wrap("    x := add(add(1, 2), 3)")),
        (wrap("    x := 1 -> inc()"), wrap("    x := inc(1)")),
        (wrap("    x := 1 -> add(1) -> add(2) -> add(3)"), wrap("    x := add(add(add(1, 1), 2), 3)")),
        (wrap("    x := 1 -> inc() -> inc() -> inc() -> inc()"), wrap("    x := inc(inc(inc(inc(1))))")),
        (wrap("    x := (1 + 2) -> add(3)"), wrap("    x := add(1 + 2, 3)")),
        (wrap("    x := (1) + ((2))"), wrap("    x := 1 + 2")),
        (wrap("    x := ((1 + 2)) * (3)"), wrap("    x := (1 + 2) * 3")),
        (wrap("    x := add((1), (2))"), wrap("    x := add(1, 2)")),
        (wrap("    x := add' 1, 2"), wrap("    x := add(1, 2)")),
        (wrap("    x := (add)' 1, 2"), wrap("    x := add(1, 2)")),
        (wrap("    x := (add)(1, 2)"), wrap("    x := add(1, 2)")),
        (wrap("    x := inc' 1"), wrap("    x := inc(1)")),
        (wrap("    x := 10 + (inc)(2)"), wrap("    x := 10 + inc(2)")),
        (wrap("    x := 2 * (add)(1, 2) - (inc)(3)"), wrap("    x := 2 * add(1, 2) - inc(3)")),
        (wrap("    x := -(inc)(3)"), wrap("    x := -inc(3)")),
        (wrap("    x := 1 + ((1, 2))[0]"), wrap("    x := 1 + (1, 2)[0]")),
        (wrap("    x := add' 1, // the first\n        2"), wrap("    x := add(1, 2)")),
        (wrap("    x := add(1, // the first\n        2)"), wrap("    x := add(1, 2)")),
        (wrap("    x := add(\n        1,\n\n        2\n    )"), wrap("    x := add(1, 2)")),
        (wrap("    x := add(\n        1,\n        inc' 2\n    )"), wrap("    x := add(1, inc(2))")),
        (wrap("    x := (\n        inc' 2\n    )"), wrap("    x := inc(2)")),
    ]
}
fn search_sugar() -> Option<(String, String)> {
    for (a, b) in sugar_pairs() {
        let x = compile_bytes(&a);
        let y = compile_bytes(&b);
        if x.is_none() || x != y {
            return Some((a.clone(), format!("must compile to the same Lua as the desugared program `{}`; {}", b.replace('\n', "\\n"),
                if x.is_none() { "it is rejected" } else if y.is_none() { "the desugared program is rejected" } else { "the emitted bytes differ" })));
        }
    }
    None
}

/// every compilation runs in a thread of its own (with a large stack) and is given 20 s: a compiler
/// that hangs on an input is an observation, not something that stalls the search
fn compile(src: &str) -> Outcome {
    let (tx, rx) = std::sync::mpsc::channel();
    let s2 = src.to_string();
    let _ = std::thread::Builder::new().stack_size(64 << 20).spawn(move || { let _ = tx.send(compile_here(&s2)); });
    match rx.recv_timeout(std::time::Duration::from_secs(20)) {
        Ok(o) => o,
        Err(std::sync::mpsc::RecvTimeoutError::Timeout) => Outcome::Hang,
        Err(_) => Outcome::Panic,
    }
}
fn split_files(src: &str) -> Vec<(PathBuf, String)> {
    let mut files = vec![(PathBuf::from("/witness/main.sy"), String::new())];
    for line in src.split_inclusive('\n') {
        if let Some(name) = line.strip_prefix("//==file ") {
            files.push((PathBuf::from("/witness").join(name.trim()), String::new()));
        } else {
            files.last_mut().unwrap().1.push_str(line);
        }
    }
    files
}
fn compile_here(src: &str) -> Outcome {
    let src = src.to_string();
    let r = std::panic::catch_unwind(move || {
        let path = PathBuf::from("/witness/main.sy");
        // a program of several files is written as one text: `//==file NAME.sy` starts the next file
        let files: Vec<(PathBuf, String)> = split_files(&src);
        let reader = |p: &Path| -> Result<String, Error> {
            match files.iter().find(|(name, _)| name == p) {
                Some((_, text)) => Ok(text.clone()),
                None => Err(Error::FileNotFound(p.to_path_buf())),
            }
        };
        // C07: a rejection is a non-empty list of errors, each of which renders to text (a panic while
        // rendering is caught below like any other panic)
        let render = |errs: &Vec<Error>| { for e in errs.iter() { let _ = format!("{}", e); } };
        let tree = match sylt_parser::tree(&path, reader, true) {
            Ok(t) => t,
            Err(errs) => { render(&errs); return Outcome::Reject },
        };
        let mut out: Vec<u8> = Vec::new();
        match sylt_compiler::compile(&mut out, tree, None) {
            Ok(()) => Outcome::Accept,
            Err(errs) => { render(&errs); Outcome::Reject },
        }
    });
    match r {
        Ok(o) => o,
        Err(_) => Outcome::Panic,
    }
}

// ---------------------------------------------------------------------------------------------
// C13: precedence / associativity
const BIN: [(&str, i32); 13] = [
    ("<=>", 1), ("or", 2), ("and", 3), ("==", 4), ("!=", 4), (">", 4), (">=", 4), ("<", 4), ("<=", 4),
    ("+", 5), ("-", 5), ("*", 6), ("/", 6),
];

fn strip(e: &Expression) -> Expression {
    use ExpressionKind::*;
    let b = |x: &Box<Expression>| Box::new(strip(x));
    let kind = match &e.kind {
        Parenthesis(x) => return strip(x),
        Add(a, c) => Add(b(a), b(c)),
        Sub(a, c) => Sub(b(a), b(c)),
        Mul(a, c) => Mul(b(a), b(c)),
        Div(a, c) => Div(b(a), b(c)),
        Neg(a) => Neg(b(a)),
        Comparison(a, k, c) => Comparison(b(a), k.clone(), b(c)),
        AssertEq(a, c) => AssertEq(b(a), b(c)),
        And(a, c) => And(b(a), b(c)),
        Or(a, c) => Or(b(a), b(c)),
        Not(a) => Not(b(a)),
        other => other.clone(),
    };
    Expression { span: e.span, ty: None, kind }
}

fn parse_expr(text: &str) -> Option<Expression> {
    let src = format!("start :: fn do\n    wx :: {}\nend\n", text);
    let path = PathBuf::from("/witness/main.sy");
    let reader = move |p: &Path| -> Result<String, Error> {
        if p == Path::new("/witness/main.sy") { Ok(src.clone()) } else { Err(Error::FileNotFound(p.to_path_buf())) }
    };
    let tree = std::panic::catch_unwind(move || sylt_parser::tree(&path, reader, false)).ok()?.ok()?;
    for (_, module) in tree.modules.iter() {
        for st in module.statements.iter() {
            if let StatementKind::Definition { value, .. } = &st.kind {
                if let ExpressionKind::Function { body, .. } = &value.kind {
                    for s in body.iter() {
                        if let StatementKind::Definition { value, .. } = &s.kind {
                            return Some(strip(value));
                        }
                        if let StatementKind::Block { statements } = &s.kind {
                            for s in statements.iter() {
                                if let StatementKind::Definition { value, .. } = &s.kind {
                                    return Some(strip(value));
                                }
                            }
                        }
                    }
                }
            }
        }
    }
    None
}

fn prec_cases() -> Vec<(String, String)> {
    let mut v = Vec::new();
    for (o1, r1) in BIN.iter() {
        for (o2, r2) in BIN.iter() {
            let min = format!("a {} b {} c", o1, o2);
            let full = if r1 >= r2 { format!("(a {} b) {} c", o1, o2) } else { format!("a {} (b {} c)", o1, o2) };
            v.push((min, full));
        }
        for u in ["not", "-"].iter() {
            if *r1 <= 5 {
                v.push((format!("{} a {} b", u, o1), format!("({} a) {} b", u, o1)));
            }
            v.push((format!("a {} {} b", o1, u), format!("a {} ({} b)", o1, u)));
        }
        v.push((format!("a {} f(b)", o1), format!("a {} (f(b))", o1)));
        v.push((format!("f(a) {} b.c", o1), format!("(f(a)) {} (b.c)", o1)));
        // call / index / field access on a right operand that does not start with an identifier
        v.push((format!("a {} (b, c)[1]", o1), format!("a {} ((b, c)[1])", o1)));
        v.push((format!("a {} (b)(c)", o1), format!("a {} ((b)(c))", o1)));
        v.push((format!("a {} (b).c", o1), format!("a {} ((b).c)", o1)));
        // a parenthesised right operand, followed by another operator (seed C13-m9)
        for (o2, r2) in BIN.iter() {
            let full = if r1 >= r2 { format!("(a {} (b + c)) {} d", o1, o2) } else { format!("a {} ((b + c) {} d)", o1, o2) };
            v.push((format!("a {} (b + c) {} d", o1, o2), full));
        }
        // a unary operand on the right, followed by a tighter / looser operator
        for (o2, r2) in BIN.iter() {
            for u in ["not", "-"].iter() {
                // the operand of a unary operator is parsed at the level of `* /` (documented: unary
                // binds tighter than + -, comparisons and the boolean operators)
                let full = if *r2 == 6 { format!("a {} ({} (b {} c))", o1, u, o2) }
                    else if r1 >= r2 { format!("(a {} ({} b)) {} c", o1, u, o2) }
                    else { format!("a {} (({} b) {} c)", o1, u, o2) };
                v.push((format!("a {} {} b {} c", o1, u, o2), full));
            }
        }
    }
    v
}

fn search_prec() -> Option<(String, String)> {
    for (min, full) in prec_cases() {
        let a = parse_expr(&min);
        let b = parse_expr(&full);
        if a.is_none() || b.is_none() || a != b {
            return Some((min.clone(), format!("expected the tree of `{}`; got {}", full,
                a.map(|e| show(&e)).unwrap_or_else(|| "a parse error".into()))));
        }
    }
    None
}

fn show(e: &Expression) -> String {
    use ExpressionKind::*;
    match &e.kind {
        Add(a, b) => format!("({} + {})", show(a), show(b)),
        Sub(a, b) => format!("({} - {})", show(a), show(b)),
        Mul(a, b) => format!("({} * {})", show(a), show(b)),
        Div(a, b) => format!("({} / {})", show(a), show(b)),
        Neg(a) => format!("(-{})", show(a)),
        Not(a) => format!("(not {})", show(a)),
        Comparison(a, k, b) => format!("({} {:?} {})", show(a), k, show(b)),
        AssertEq(a, b) => format!("({} <=> {})", show(a), show(b)),
        And(a, b) => format!("({} and {})", show(a), show(b)),
        Or(a, b) => format!("({} or {})", show(a), show(b)),
        Get(a) => match &a.kind {
            AssignableKind::Read(i) => i.name.clone(),
            _ => "<postfix>".into(),
        },
        _ => "<atom>".into(),
    }
}

// ---------------------------------------------------------------------------------------------
// C03: operator tables on literal operands
#[derive(Clone, Debug, PartialEq)]
enum T { Int, Float, Str, Bool, Tup(Vec<T>) }
fn lit(t: &T) -> String {
    match t {
        T::Int => "1".into(), T::Float => "1.5".into(), T::Str => "\"s\"".into(), T::Bool => "true".into(),
        T::Tup(xs) => format!("({},)", xs.iter().map(lit).collect::<Vec<_>>().join(", ")),
    }
}
fn num(t: &T) -> bool { matches!(t, T::Int | T::Float) }
fn table(op: &str, a: &T, b: &T) -> bool {
    match (a, b) {
        (T::Tup(x), T::Tup(y)) => x.len() == y.len() && x.iter().zip(y.iter()).all(|(p, q)| table(op, p, q)),
        (T::Tup(x), s) if op == "/" && num(s) => x.iter().all(|p| table(op, p, s)),
        _ => match op {
            "+" => matches!((a, b), (T::Int, T::Int) | (T::Float, T::Float) | (T::Str, T::Str)),
            "-" | "*" => matches!((a, b), (T::Int, T::Int) | (T::Float, T::Float)),
            "/" => num(a) && num(b),
            "<" | "<=" | ">" | ">=" => (num(a) && num(b)) || matches!((a, b), (T::Str, T::Str)),
            _ => false,
        },
    }
}
fn operands() -> Vec<T> {
    vec![T::Int, T::Float, T::Str, T::Bool,
         T::Tup(vec![T::Int, T::Int]), T::Tup(vec![T::Float, T::Str]), T::Tup(vec![T::Str, T::Int]),
         T::Tup(vec![T::Int, T::Int, T::Int]), T::Tup(vec![T::Tup(vec![T::Int, T::Str]), T::Float]),
         T::Tup(vec![T::Tup(vec![T::Str, T::Str]), T::Float])]
}
fn search_ops() -> Option<(String, String)> {
    for op in ["+", "-", "*", "/", "<", ">"].iter() {
        for a in operands() {
            for b in operands() {
                // the result type of `/` involves extra rules (div_res); only rejection is checked there
                let want = table(op, &a, &b);
                if *op == "/" && want { continue; }
                let src = format!("start :: fn do\n    wa := {}\n    wb := {}\n    wc := wa {} wb\nend\n", lit(&a), lit(&b), op);
                let got = compile(&src);
                let ok = if want { got == Outcome::Accept } else { got == Outcome::Reject };
                if !ok {
                    return Some((src, format!("operator table says {}, compiler: {:?}", if want { "accept" } else { "reject" }, got)));
                }
            }
        }
    }
    None
}

// ---------------------------------------------------------------------------------------------
// fixed program families: (program, expected)
fn programs(family: &str) -> Vec<(String, Outcome)> {
    let mut v: Vec<(String, Outcome)> = Vec::new();
    let mut p = |s: &str, o: Outcome| v.push((s.to_string(), o));
    let enum_a = "A :: enum\n    X int,\n    Y,\nend\n";
    match family {
        "scope" => {
            p("start :: fn do\n    if true do\n        y := 1\n    end\n    print(y)\nend\n", Outcome::Reject);
            p("start :: fn do\n    if false do\n        print(1)\n    elif true do\n        y := 1\n    end\n    print(y)\nend\n", Outcome::Reject);
            p("start :: fn do\n    if false do\n        print(1)\n    else do\n        y := 1\n    end\n    print(y)\nend\n", Outcome::Reject);
            p("start :: fn do\n    loop false do\n        y := 1\n    end\n    print(y)\nend\n", Outcome::Reject);
            p("start :: fn do\n    loop false y := 1\n    print(y)\nend\n", Outcome::Reject);
            p(&format!("{}start :: fn do\n    a := A.X 1\n    case a do\n        X v ->\n            w := v\n        end\n        else\n            print(1)\n        end\n    end\n    print(v)\nend\n", enum_a), Outcome::Reject);
            p(&format!("{}start :: fn do\n    a := A.X 1\n    case a do\n        X v ->\n            w := v\n        end\n        else\n            print(1)\n        end\n    end\n    print(w)\nend\n", enum_a), Outcome::Reject);
            p(&format!("{}start :: fn do\n    a := A.Y\n    case a do\n        X v ->\n            print(v)\n        end\n        else\n            e := 3\n        end\n    end\n    print(e)\nend\n", enum_a), Outcome::Reject);
            p("start :: fn do\n    f :: fn p: int do\n        q := p\n    end\n    f(1)\n    print(p)\nend\n", Outcome::Reject);
            p("start :: fn do\n    f :: fn p: int do\n        q := p\n    end\n    f(1)\n    print(q)\nend\n", Outcome::Reject);
            // a qualified name a.b.x: b is looked up in the namespace a denotes, not in the using file
            let mods = "//==file shop.sy\nuse tools\nprice :: 3\n//==file tools.sy\nprice :: 7\n//==file spare.sy\nprice :: \"s\"\n";
            p(&format!("use shop\nuse spare as tools\nstart :: fn do\n    x: int = shop.tools.price\n    y: str = tools.price\nend\n{}", mods), Outcome::Accept);
            p(&format!("use shop\nuse spare as tools\nstart :: fn do\n    x: str = shop.tools.price\nend\n{}", mods), Outcome::Reject);
            p(&format!("use shop\nstart :: fn do\n    x: int = shop.tools.price\nend\n{}", mods), Outcome::Accept);
            // locals of a global's initialiser are locals (also when the initialiser is not a function)
            p("limit :: 10\nbonus :: if limit < 20 do\n    extra :: 5\n    extra + 1\nelse\n    0\nend\nstart :: fn do\n    print(bonus)\nend\n", Outcome::Accept);
            p("limit :: 10\nbonus :: if limit < 20 do\n    extra :: 5\n    extra + 1\nelse\n    0\nend\nstart :: fn do\n    print(extra)\nend\n", Outcome::Reject);
            p("start :: fn do\n    print(z)\n    z := 1\nend\n", Outcome::Reject);
            p("start :: fn do\n    b :: b + 1\nend\n", Outcome::Reject);
            p("start :: fn do\n    y := 1\n    if true do\n        y := 2\n        print(y)\n    end\n    print(y)\nend\n", Outcome::Accept);
            // innermost binding wins: the inner y is a str, the outer an int
            p("start :: fn do\n    y := 1\n    if true do\n        y := \"s\"\n        z := y + \"t\"\n    end\nend\n", Outcome::Accept);
            p("start :: fn do\n    y := 1\n    if true do\n        y := \"s\"\n        z := y + 1\n    end\nend\n", Outcome::Reject);
        }
        "pure" => {
            p("start :: fn do\n    c :: 1\n    c = 2\nend\n", Outcome::Reject);
            p("f :: fn p: int do\n    p = 2\nend\nstart :: fn do\n    f(1)\nend\n", Outcome::Reject);
            p(&format!("{}start :: fn do\n    a := A.X 1\n    case a do\n        X v ->\n            v = 2\n        end\n        else\n            print(1)\n        end\n    end\nend\n", enum_a), Outcome::Reject);
            p("g :: pu do\n    m := 1\nend\nstart :: fn do\n    g()\nend\n", Outcome::Reject);
            p("g :: pu n: int -> int do\n    if n > 0 do\n        step := fn x: int -> int do\n            x + 1\n        end\n    end\n    n + n\nend\nstart :: fn do\n    g(1)\nend\n", Outcome::Reject);
            p("g :: pu n: int -> int do\n    if n > 0 do\n        step :: fn x: int -> int do\n            x + 1\n        end\n    end\n    n + n\nend\nstart :: fn do\n    g(1)\nend\n", Outcome::Accept);
            p("start :: fn do\n    c :: 8.0\n    c /= 2.0\nend\n", Outcome::Reject);
            p("k := 1\ng :: pu do\n    k = 2\nend\nstart :: fn do\n    g()\nend\n", Outcome::Reject);
            p("k := 1\ng :: pu do\n    if true do\n        loop false do\n            k = 2\n        end\n    end\nend\nstart :: fn do\n    g()\nend\n", Outcome::Reject);
            p("twice :: pu f: pu -> int -> int do\n    ret f() + f()\nend\nk := 1\nnext :: fn -> int do\n    k += 1\n    ret k\nend\nstart :: fn do\n    print(twice(next))\nend\n", Outcome::Reject);
            p("k := 1\ng :: pu do\n    f :: fn do\n        k = 2\n    end\nend\nstart :: fn do\n    g()\nend\n", Outcome::Reject);
            p("k := 1\ng :: pu do\n    if true do\n        f :: fn do\n            m := k\n        end\n    end\nend\nstart :: fn do\n    g()\nend\n", Outcome::Reject);
            p("k := 1\ng :: pu do\n    loop true do\n        f :: fn do\n            k = 2\n        end\n        break\n    end\nend\nstart :: fn do\n    g()\nend\n", Outcome::Reject);
            p("k := 1\ng :: pu do\n    loop true do\n        if true do\n            f :: fn do\n                m := k\n            end\n        end\n        break\n    end\nend\nstart :: fn do\n    g()\nend\n", Outcome::Reject);
            p("start :: fn do\n    m := 1\n    m = 2\nend\n", Outcome::Accept);
        }
        "shape" => {
            p("start :: fn do\n    break\nend\n", Outcome::Reject);
            p("A :: blob {\n    a: int,\n}\nf :: fn p do\n    p.nope\nend\nstart :: fn do\n    x := A { a: 1 }\n    f(x)\nend\n", Outcome::Reject);
            p("h :: fn t do\n    t[5]\nend\nstart :: fn do\n    t := (1, 2)\n    h(t)\nend\n", Outcome::Reject);
            p("A :: blob {\n    a: int,\n}\nf :: fn p do\n    p.nope\nend\nstart :: fn do\n    f(A { a: 1 })\nend\n", Outcome::Reject);
            p("start :: fn do\n    continue\nend\n", Outcome::Reject);
            p("start :: fn do\n    if true do\n        break\n    end\nend\n", Outcome::Reject);
            p("start :: fn do\n    loop true do\n        if true do\n            break\n        end\n    end\nend\n", Outcome::Accept);
            p("start :: fn do\n    loop true do\n        f :: fn do\n            break\n        end\n        f()\n        break\n    end\nend\n", Outcome::Reject);
            p("start :: fn do\n    i := 0\n    loop i < 3 do\n        i += 1\n        g :: fn -> int do\n            continue\n            ret 1\n        end\n        print(g())\n    end\nend\n", Outcome::Reject);
            p("start :: fn do\n    t := (1, 2)\n    print(t[2])\nend\n", Outcome::Reject);
            p("start :: fn do\n    t := (1, 2)\n    print(t[1])\nend\n", Outcome::Accept);
            p("start :: fn do\n    t := (1, 2)\n    t = (1, 2, 3)\nend\n", Outcome::Reject);
            p("start :: fn do\n    x := 1\n    x = 1.5\nend\n", Outcome::Reject);
            p("start :: fn do\n    print(1 == 1.5)\nend\n", Outcome::Reject);
        }
        "deferred" => {
            // an operator on an un-annotated parameter is checked later, when the argument's type is known
            p("inc :: fn x do\n    x + 1\nend\nstart :: fn do\n    s := \"hello\"\n    inc(s)\nend\n", Outcome::Reject);
            p("neg :: fn a do\n    ret -a\nend\nstart :: fn do\n    s := \"x\"\n    neg(s)\nend\n", Outcome::Reject);
            p("add :: fn a, b do\n    ret a + b\nend\nstart :: fn do\n    x := 1\n    s := \"x\"\n    add(x, s)\nend\n", Outcome::Reject);
            p("lt :: fn a, b do\n    ret a < b\nend\nstart :: fn do\n    x := true\n    y := false\n    lt(x, y)\nend\n", Outcome::Reject);
            p("inc :: fn x do\n    x + 1\nend\nstart :: fn do\n    s := 2\n    inc(s)\nend\n", Outcome::Accept);
            // a generic helper used at several types: every use instantiates (copies) its type with its deferred constraints
            let ge = "ge :: fn a, b ->\n    a >= b\nend\n";
            p(&format!("{}start :: fn do\n    x := ge(3, 2)\n    y := ge(\"b\", \"a\")\nend\n", ge), Outcome::Accept);
            p(&format!("{}start :: fn do\n    x := ge(3, 2)\n    y := ge(true, false)\nend\n", ge), Outcome::Reject);
            let lt = "lt :: fn a, b -> bool do\n    a < b\nend\n";
            p(&format!("{}start :: fn do\n    x := lt(1, 2)\n    y := lt(\"a\", \"b\")\nend\n", lt), Outcome::Accept);
            p(&format!("{}start :: fn do\n    x := lt(1, 2)\n    y := lt(1, \"b\")\nend\n", lt), Outcome::Reject);
            let ad = "ad :: fn a, b ->\n    a + b\nend\n";
            p(&format!("{}start :: fn do\n    x := ad(1, 2)\n    y := ad(\"a\", \"b\")\nend\n", ad), Outcome::Accept);
            p(&format!("{}start :: fn do\n    x := ad(1, 2)\n    y := ad(1, \"b\")\nend\n", ad), Outcome::Reject);
        }
        "lits" => {
            // constructs applied to literals of a type they do not accept (the literal-level clauses of expression)
            let st = |body: &str| format!("start :: fn do\n{}end\n", body);
            p(&st("    x := 1 + \"a\"\n"), Outcome::Reject);
            p(&st("    x := 1.5 - 1\n"), Outcome::Reject);
            p(&st("    x := \"a\" * \"b\"\n"), Outcome::Reject);
            p(&st("    x := 1 / \"a\"\n"), Outcome::Reject);
            p(&st("    x := 1 == \"a\"\n"), Outcome::Reject);
            p(&st("    x := 1 != 1.5\n"), Outcome::Reject);
            p(&st("    x := 1 < \"a\"\n"), Outcome::Reject);
            p(&st("    x := true <= false\n"), Outcome::Reject);
            p(&st("    x := true and 1\n"), Outcome::Reject);
            p(&st("    x := 1 and true\n"), Outcome::Reject);
            p(&st("    x := \"a\" or false\n"), Outcome::Reject);
            p(&st("    x := not 1\n"), Outcome::Reject);
            // compound division: the result of a division is a float
            p(&st("    total := 10\n    parts := 4\n    total /= parts\n"), Outcome::Reject);
            p(&st("    total := 10.0\n    total /= 4\n"), Outcome::Accept);
            p(&st("    c :: 8.0\n    c /= 2.0\n"), Outcome::Reject);
            p(&st("    x := -1\n    y := -1.5\n    -2\n"), Outcome::Accept);
            p(&st("    -\"abc\"\n"), Outcome::Reject);
            p(&st("    -true\n"), Outcome::Reject);
            p(&st("    print(-nil)\n"), Outcome::Reject);
            p(&st("    x := -\"abc\"\n"), Outcome::Reject);
            p(&st("    if 1 do\n        print(1)\n    end\n"), Outcome::Reject);
            p(&st("    if true do\n        print(1)\n    elif \"a\" do\n        print(2)\n    end\n"), Outcome::Reject);
            p(&st("    x := [1, \"a\"]\n"), Outcome::Reject);
            p(&st("    x := [1, 2, 2.5]\n"), Outcome::Reject);
            p(&st("    x := 1()\n"), Outcome::Reject);
            p(&st("    x := \"f\"(1)\n"), Outcome::Reject);
            p(&st("    x := \"s\".f\n"), Outcome::Reject);
            p(&st("    x := \"s\"[0]\n"), Outcome::Reject);
            p(&st("    x := 1 + 2\n"), Outcome::Accept);
            p(&st("    x := \"a\" + \"b\"\n"), Outcome::Accept);
            p(&st("    x := 1 < 2.5\n"), Outcome::Accept);
            p(&st("    x := true and false\n"), Outcome::Accept);
            p(&st("    x := not true\n"), Outcome::Accept);
            p(&st("    x := [1, 2]\n"), Outcome::Accept);
            p(&st("    if true do\n        print(1)\n    end\n"), Outcome::Accept);
            // uses of a variable that contradict its known type
            let f = "    f :: fn a: int -> int do\n        ret a\n    end\n";
            p(&st(&format!("{}    x := f(1)\n", f)), Outcome::Accept);
            p(&st(&format!("{}    x := f(1, 2)\n", f)), Outcome::Reject);
            p(&st(&format!("{}    x := f()\n", f)), Outcome::Reject);
            p(&st("    n := 1\n    x := n(1)\n"), Outcome::Reject);
            p(&st("    n := 1\n    x := n.f\n"), Outcome::Reject);
            p(&st("    n := 1\n    x := n[0]\n"), Outcome::Reject);
            p(&st("    t := (1, 2)\n    x := t[5]\n"), Outcome::Reject);
            // a literal that contradicts the declared primitive type
            p(&st("    x: int = 1\n    y: str = \"a\"\n    z: float = 1.5\n    w: bool = true\n"), Outcome::Accept);
            p(&st("    x: int = \"a\"\n"), Outcome::Reject);
            p(&st("    x: float = 1\n"), Outcome::Reject);
            p(&st("    x: int = 1.5\n"), Outcome::Reject);
            p(&st("    x: bool = 0\n"), Outcome::Reject);
            p(&st("    x: str : 1\n"), Outcome::Reject);
        }
        "case" => {
            let arms = |a: &str| format!("{}start :: fn do\n    a := A.X 1\n    case a do\n{}    end\nend\n", enum_a, a);
            p(&arms("        X v ->\n            print(v)\n        end\n        Y ->\n            print(2)\n        end\n"), Outcome::Accept);
            p(&arms("        X v ->\n            print(v)\n        end\n"), Outcome::Reject);
            p(&arms("        X v ->\n            print(v)\n        end\n        else\n            print(2)\n        end\n"), Outcome::Accept);
            p(&arms("        X v ->\n            print(v)\n        end\n        Y ->\n            print(2)\n        end\n        Z ->\n            print(3)\n        end\n"), Outcome::Reject);
            p(&arms("        Z ->\n            print(3)\n        end\n        else\n            print(2)\n        end\n"), Outcome::Reject);
            p(&arms("        Y ->\n            print(2)\n        end\n        else\n            print(2)\n        end\n"), Outcome::Accept);
            p(&format!("{}start :: fn do\n    a := 1\n    case a do\n        X ->\n            print(2)\n        end\n        else\n            print(2)\n        end\n    end\nend\n", enum_a), Outcome::Reject);
            p(&arms("        X v ->\n            print(v + \"s\")\n        end\n        else\n            print(2)\n        end\n"), Outcome::Reject);
            p(&format!("{}start :: fn do\n    a := A.Z 1\nend\n", enum_a), Outcome::Reject);
            p(&format!("{}start :: fn do\n    pair :: (A.Z 3, \"label\")\nend\n", enum_a), Outcome::Reject);
            p(&format!("{}start :: fn do\n    A.Z 3\nend\n", enum_a), Outcome::Reject);
            p(&format!("{}start :: fn do\n    pair :: (A.X 3, \"label\")\nend\n", enum_a), Outcome::Accept);
            p(&format!("{}start :: fn do\n    a := A.Z\nend\n", enum_a), Outcome::Reject);
            p(&format!("{}start :: fn do\n    a := A.X \"s\"\nend\n", enum_a), Outcome::Reject);
            p(&format!("{}start :: fn do\n    a := A.X 1\n    b := A.Y\nend\n", enum_a), Outcome::Accept);
        }
        "blob" => {
            let b = "B :: blob {\n    a: int,\n    b: int,\n}\nX :: externblob {\n    a: int\n}\n";
            let st = |body: &str| format!("{}start :: fn do\n{}end\n", b, body);
            p(&st("    x := B { a: 1, b: 2 }\n"), Outcome::Accept);
            p(&st("    x := B { a: 1 }\n"), Outcome::Reject);
            p(&st("    x := B { b: 1 }\n"), Outcome::Reject);
            p(&st("    x := B { a: 1, b: 2, c: 3 }\n"), Outcome::Reject);
            p(&st("    x := B { a: 1, c: 3 }\n"), Outcome::Reject);
            p(&st("    x := B { a: 1, b: 2 }\n    y := x.c\n"), Outcome::Reject);
            p(&st("    x := B { a: 1, b: 2 }\n    y := x.a + x.b\n"), Outcome::Accept);
            p(&st("    x := B { a: 1, b: \"s\" }\n"), Outcome::Reject);
            p(&st("    x := X { a: 1 }\n"), Outcome::Reject);
        }
        "rets" => {
            // every value a function returns (by `ret` or as the value of its body) has the declared return type
            let f = |body: &str, ty: &str| format!("f :: fn a: int -> {} do\n{}end\nstart :: fn do\n    x := f(3)\nend\n", ty, body);
            p(&f("    ret a\n", "int"), Outcome::Accept);
            p(&f("    a\n", "int"), Outcome::Accept);
            p(&f("    ret \"s\"\n", "int"), Outcome::Reject);
            p(&f("    \"s\"\n", "int"), Outcome::Reject);
            p(&f("    loop a > 10 do\n        ret a\n    end\n    a + 1\n", "int"), Outcome::Accept);
            p(&f("    loop a > 10 do\n        ret a\n    end\n    \"small\"\n", "int"), Outcome::Reject);
            p(&f("    loop a > 10 do\n        ret \"big\"\n    end\n    a\n", "int"), Outcome::Reject);
            p(&f("    if a > 10 do\n        ret 1\n    else do\n        ret 2\n    end\n    \"never\"\n", "int"), Outcome::Reject);
            p(&f("    if a > 10 do\n        ret 1\n    else do\n        ret 2.0\n    end\n", "int"), Outcome::Reject);
            p(&f("    loop a > 10 do\n        ret 1.0\n    end\n    2.0\n", "float"), Outcome::Accept);
            p(&f("    loop a > 10 do\n        ret 1.0\n    end\n    2\n", "float"), Outcome::Reject);
            // a `ret` inside an `if` without `else`
            p(&f("    if a > 10 do\n        ret 1\n    end\n    2\n", "int"), Outcome::Accept);
            p(&f("    if a > 10 do\n        ret \"big\"\n    end\n    2\n", "int"), Outcome::Reject);
            p(&f("    if a > 10 do\n        ret 1\n    elif a > 5 do\n        ret 2.5\n    end\n    2\n", "int"), Outcome::Reject);
            p(&f("    if a > 10 do\n        ret 2.5\n    elif a > 5 do\n        ret 1\n    end\n    2\n", "int"), Outcome::Reject);
            p(&f("    if a > 10 do\n        ret 2.5\n    elif a > 5 do\n        ret 1\n    else do\n        ret 3\n    end\n", "int"), Outcome::Reject);
            p("f :: fn a: int do\n    if a > 1 do\n        ret\n    end\nend\nstart :: fn do\n    f(3)\nend\n", Outcome::Accept);
            p("f :: fn a: int do\n    ret 1\nend\nstart :: fn do\n    f(3)\nend\n", Outcome::Reject);
            p("f :: fn a: int do\n    ret\nend\nstart :: fn do\n    f(3)\nend\n", Outcome::Accept);
        }
        "generics" => {
            // a type variable named in a parameter and in the return type is one variable
            let pre = "first :: fn xs: [*A] -> Maybe(*A) do\n    Maybe.None\nend\n";
            p(&format!("{}start :: fn do\n    r: Maybe(int) = first([1, 2, 3])\nend\n", pre), Outcome::Accept);
            p(&format!("{}start :: fn do\n    r: Maybe(str) = first([1, 2, 3])\nend\n", pre), Outcome::Reject);
            p("same :: fn a: *A, b: *A -> *A do\n    a\nend\nstart :: fn do\n    x: int = same(1, 2)\nend\n", Outcome::Accept);
            p("same :: fn a: *A, b: *A -> *A do\n    a\nend\nstart :: fn do\n    x: str = same(1, 2)\nend\n", Outcome::Reject);
            p("same :: fn a: *A, b: *A -> *A do\n    a\nend\nstart :: fn do\n    x := same(1, \"s\")\nend\n", Outcome::Reject);
        }
        "void" => {
            // storing `void` (the result of a function that returns nothing) in a variable, parameter, list or field
            let pre = "log :: fn msg: str do\nend\nkeep :: fn x do\nend\nkeepi :: fn x: int do\nend\n";
            let st = |body: &str| format!("{}start :: fn do\n{}end\n", pre, body);
            p(&st("    log(\"a\")\n"), Outcome::Accept);
            p(&st("    keep(1)\n"), Outcome::Accept);
            p(&st("    keep(log(\"a\"))\n"), Outcome::Reject);
            p(&st("    keepi(log(\"a\"))\n"), Outcome::Reject);
            p(&st("    x := log(\"a\")\n"), Outcome::Reject);
            p(&st("    x :: log(\"a\")\n"), Outcome::Reject);
            p(&st("    keep(keep(1))\n"), Outcome::Reject);
            p(&st("    keep(1)\n    keep(\"s\")\n"), Outcome::Accept);
        }
        "start" => {
            // a program needs a global `start` in the MAIN file
            let other_with = "//==file other.sy\nstart :: fn do\n    print(1)\nend\n";
            let other_without = "//==file other.sy\nhelper :: fn do\n    print(1)\nend\n";
            p(&format!("use other\nstart :: fn do\n    other.helper()\nend\n{}", other_without), Outcome::Accept);
            p(&format!("use other\nhelper :: fn do\n    print(2)\nend\n{}", other_with), Outcome::Reject);
            p(&format!("use other\nhelper :: fn do\n    print(2)\nend\n{}", other_without), Outcome::Reject);
            p(&format!("use other\nstart :: fn do\n    print(2)\nend\n{}", other_with), Outcome::Accept);
            p("helper :: fn do\n    print(2)\nend\n", Outcome::Reject);
            p("helper :: fn do\n    start :: fn do\n        print(2)\n    end\nend\n", Outcome::Reject);
            p("start :: fn do\n    print(2)\nend\n", Outcome::Accept);
        }
        "order" => {
            // globals may be written in any order; initialisers that need each other are rejected
            p("a :: b + 1\nb :: 1\nstart :: fn do\n    print(a)\nend\n", Outcome::Accept);
            p("b :: 1\na :: b + 1\nstart :: fn do\n    print(a)\nend\n", Outcome::Accept);
            p("start :: fn do\n    print(a)\nend\na :: b + 1\nb :: c * 2\nc :: 3\n", Outcome::Accept);
            p("a :: b + 1\nb :: a + 1\nstart :: fn do\n    print(a)\nend\n", Outcome::Reject);
            p("a :: b\nb :: c\nc :: a\nstart :: fn do\n    print(a)\nend\n", Outcome::Reject);
            p("f :: fn n: int -> int do\n    if n < 1 do\n        ret 0\n    end\n    ret f(n - 1)\nend\nstart :: fn do\n    print(f(3))\nend\n", Outcome::Accept);
            p("a :: a + 1\nstart :: fn do\n    print(a)\nend\n", Outcome::Reject);
            p("f :: fn -> int do\n    ret g()\nend\ng :: fn -> int do\n    ret 1\nend\nstart :: fn do\n    print(f())\nend\n", Outcome::Accept);
            // (two global functions that call each other depend on each other cyclically: rejected; only a function's use of itself is exempt)
            p("f :: fn n: int -> int do\n    if n < 1 do\n        ret 0\n    end\n    ret g(n - 1)\nend\ng :: fn n: int -> int do\n    ret f(n)\nend\nstart :: fn do\n    print(f(3))\nend\n", Outcome::Reject);
        }
        "nopanic" => {
            p("B :: blob { a: int }\nstart :: fn do\n    B :: blob { a: int }\n    print(1)\nend\n", Outcome::Reject);
            p("E :: enum\n    X,\nend\nstart :: fn do\n    E :: enum\n        X,\n    end\nend\n", Outcome::Reject);
            p("start :: fn do\nend\n// a comment after the last statement\n", Outcome::Accept);
            p("// only a comment\n", Outcome::Reject);
            // a loop whose body is ended by `end` / `else` (fix 7596cb1: the first one panicked in debug builds)
            p("start :: fn do\n    if true do loop false do end end\nend\n", Outcome::Accept);
            p("start :: fn do\n    x := 0\n    if x > 1 do loop x < 5 x += 1 else do x = 0 end\nend\n", Outcome::Accept);
            p("start :: fn do\n    a := (\n    )\nend\n", Outcome::Accept);
            p("clock :: 0\nstart :: fn do\n    clock : int : external\n    clock\nend\n", Outcome::Reject);
            p("Pair :: blob(*A) {\n    fst: *A,\n    snd: *A,\n}\nfirst :: fn p: Pair(int, str) -> int do\n    p.fst\nend\nstart :: fn do\n    p := Pair { fst: 1, snd: 2 }\n    print' first' p\nend\n", Outcome::Reject);
            // import cycles: a file is read once, also when it does not parse
            p("use main\nstart :: fn do\n    x := (1 +\nend\n", Outcome::Reject);
            p("use other\nstart :: fn do\n    x := (1 +\nend\n//==file other.sy\nuse main\ny :: (\n", Outcome::Reject);
            p("use other\nstart :: fn do\n    other.f()\nend\n//==file other.sy\nuse main\nf :: fn do\nend\n", Outcome::Accept);
            p("use math as start\n", Outcome::Reject);
            p("x :: 1\n", Outcome::Reject);
            p("start :: fn do\n    x := (1\nend\n", Outcome::Reject);
            p("start :: fn do\n    x := ()\n    y := (1)\n    z := (1,)\nend\n", Outcome::Accept);
            // cyclic types: unification and the rendering of a type in an error message must terminate
            p("f :: fn a, b, y do\n    a == (a, a)\n    b == (y, b)\n    a == b\nend\nstart :: fn do\nend\n", Outcome::Accept);
            p("f :: fn a, b do\n    a == (a, a)\n    b == (b, b)\n    a == b\nend\nstart :: fn do\nend\n", Outcome::Accept);
            p("start :: fn do\n    a := []\n    a = [a]\n    a + 1\nend\n", Outcome::Reject);
            p("start :: fn do\n    a := []\n    a = [a]\nend\n", Outcome::Accept);
        }
        _ => {}
    }
    v
}

fn search_programs(family: &str) -> Option<(String, String)> {
    for (src, want) in programs(family) {
        // (the driver reads the last TRY line when this process dies: stack overflow, abort)
        eprintln!("TRY {} {}", family, esc(&src));
        let got = compile(&src);
        if got != want {
            return Some((src, format!("expected {:?}, compiler: {:?}", want, got)));
        }
    }
    None
}

fn esc(s: &str) -> String {
    let mut o = String::new();
    for c in s.chars() {
        match c {
            '"' => o.push_str("\\\""), '\\' => o.push_str("\\\\"), '\n' => o.push_str("\\n"), '\t' => o.push_str("\\t"),
            c => o.push(c),
        }
    }
    o
}

fn run_family(f: &str) -> Option<(String, String)> {
    match f {
        "prec" => search_prec(),
        "ops" => search_ops(),
        "sugar" => search_sugar(),
        other => search_programs(other),
    }
}

fn main() {
    std::panic::set_hook(Box::new(|_| {}));
    let args: Vec<String> = std::env::args().collect();
    if args.len() >= 3 && args[1] == "search" {
        let mut tried = 0usize;
        for f in args[2..].iter() {
            tried += match f.as_str() { "prec" => prec_cases().len(), "ops" => 6 * operands().len() * operands().len(), "sugar" => sugar_pairs().len(), o => programs(o).len() };
            if let Some((input, what)) = run_family(f) {
                println!("{{\"family\": \"{}\", \"input\": \"{}\", \"observed\": \"{}\", \"inputs_tried\": {}}}", f, esc(&input), esc(&what), tried);
                return;
            }
        }
        println!("{{\"family\": null, \"input\": null, \"inputs_tried\": {}}}", tried);
    } else if args.len() >= 4 && args[1] == "replay" {
        // re-run one stored input of a family: still a mismatch?
        let fam = &args[2];
        let input = &args[3];
        let bad = match fam.as_str() {
            "prec" => prec_cases().into_iter().find(|(m, _)| m == input).map(|(m, f)| parse_expr(&m).is_none() || parse_expr(&m) != parse_expr(&f)).unwrap_or(false),
            "ops" => {
                // recompute through the search: the stored program is generated deterministically
                search_ops().map(|(s, _)| &s == input).unwrap_or(false)
            }
            "sugar" => sugar_pairs().into_iter().find(|(a, _)| a == input).map(|(a, b)| { let x = compile_bytes(&a); x.is_none() || x != compile_bytes(&b) }).unwrap_or(false),
            o => programs(o).into_iter().find(|(s, _)| s == input).map(|(s, w)| compile(&s) != w).unwrap_or(false),
        };
        if bad {
            println!("replay: the stored input still misbehaves on this tree");
            std::process::exit(1);
        }
        println!("replay: the stored input behaves as specified on this tree");
    } else if args.len() >= 3 && args[1] == "try" {
        // developer helper: what does the compiler do with this one program?
        println!("{:?}", compile(&args[2].replace("\\n", "\n")));
    } else {
        eprintln!("usage: witness search <family>... | witness replay <family> <input> | witness try <program>");
        std::process::exit(2);
    }
}
