"""Template assembler: builds one Verus file per unit from

  * the unit template (units/<U>/unit.rs.tpl): hand-written ghost vocabulary, stubs and the
    contracts, and
  * item text extracted from the current /repo working tree on every run.

Template directives all start with `//@`.  Everything else in the template is copied literally
(origin "template" = hand-written, trusted as specification text).

  //@ type FILE KIND NAME [clone=ext|keep|none] [eq=ext|keep|none] [keep=Copy,Eq,Hash,...]
  //@ macro FILE NAME
  //@ fn FILE NAME
  //@   in <impl header without the word impl>        (method of that impl block)
  //@   props C13 C07                                 (properties owning untagged obligations)
  //@   mode proved|assumed                           (assumed: signature from repo, external_body)
  //@   attr #[verifier::...]
  //@   ret r
  //@   spec / endspec                                (requires/ensures/decreases lines)
  //@   inner NAME / endinner                         (ret/attr/spec for a nested fn)
  //@   loop N [binder it] / endloop                  (invariant/ensures/decreases of N-th loop)
  //@   ghost entry | before-loop N | loop-body N | loop-end N | after-loop N | before [K] | after [K]
  //@   //@| exact text line(s) for before/after anchors
  //@   endghost
  //@   rewrite KIND [count=N] ; //@- old lines ; //@+ new lines ; //@ why ... ; endrewrite
  //@ end

A clause line inside spec/loop/ghost text may carry a label `//# C13,C07 name`; it names the
obligation and says which properties own it (the label applies forward until the next one).
"""
import os
import re
from rsscan import (Source, LostAnchor, code_mask, strip_attributes, doc_to_plain, loop_positions,
                    header_brace, match_close)


class TemplateError(Exception):
    pass


GHOST_OK = re.compile(r'^(proof\s*\{|let\s+ghost\b|let\s+tracked\b|assert\b|assert_by\b|reveal\b|hide\s*\(|broadcast\s+use\b|#\[verifier::loop_isolation\(false\)\]|//|/\*|\}|$)')
LABEL_RE = re.compile(r'//#\s*([A-Z0-9,]+|-)\s+(\S+)\s*$')


class Seg:
    __slots__ = ('text', 'meta')

    def __init__(self, text, meta):
        self.text = text
        self.meta = meta


class Assembled:
    def __init__(self):
        self.lines = []      # text lines
        self.meta = []       # per line dict
        self.items = []      # per extracted item info
        self.log = {'dropped_attributes': [], 'rewrites': [], 'derive_replacements': [],
                    'doc_comments_flattened': 0}
        self.labels = {}     # label name -> dict(props, item, kind)
        self.split_info = {}  # item -> number of parts (proof by cases over match arms)
        self.part_select = None

    def text(self):
        return '\n'.join(self.lines) + '\n'

    def add(self, text, meta):
        for l in text.split('\n'):
            self.lines.append(l)
            self.meta.append(meta)


class RepoFiles:
    def __init__(self, repo):
        self.repo = repo
        self.cache = {}
        self.virtual = {}

    def get(self, rel):
        if rel in self.cache:
            return self.cache[rel]
        if rel in self.virtual:
            text = self.virtual[rel]
        else:
            p = os.path.join(self.repo, rel)
            if not os.path.exists(p):
                raise LostAnchor("file %s is gone" % rel)
            text = open(p, encoding='utf-8').read()
        s = Source(rel, text)
        self.cache[rel] = s
        return s


def parse_opts(words):
    o = {}
    for w in words:
        if '=' in w:
            k, v = w.split('=', 1)
            o[k] = v
        else:
            o[w] = True
    return o


def clause_ends(text_lines):
    """for each line: True if a clause of a requires/ensures/invariant list ends on it, i.e. its code
    ends with a comma at bracket depth 0 (depth tracked across the lines of the block)."""
    ends = []
    depth = 0
    for l in text_lines:
        code = l.split('//')[0]
        for ch in code:
            if ch in '([{':
                depth += 1
            elif ch in ')]}':
                depth -= 1
        ends.append(depth <= 0 and code.rstrip().endswith(','))
        if depth < 0:
            depth = 0
    return ends


KEYWORD_LINE = re.compile(r'\s*(requires|ensures|invariant|invariant_except_break|decreases|recommends)\s*$')


def labelled(text_lines, default_props, item, kind, asm, default_tag=None):
    """turn spec/loop/ghost lines into (line, meta). A label `//# PROPS name` stands at the end of the
    LAST line of a clause; it applies to that line and to the preceding lines of the same clause
    (back to the previous clause end: a comma at bracket depth 0, a keyword line or another label).
    Unlabelled clauses are proof-internal: their failure is reported as undecided."""
    metas = [None] * len(text_lines)
    ends = clause_ends(text_lines)
    for k, l in enumerate(text_lines):
        m = LABEL_RE.search(l)
        if not m:
            continue
        props = [] if m.group(1) == '-' else m.group(1).split(',')
        tag = m.group(2)
        if tag in asm.labels and asm.labels[tag]['item'] != item:
            raise TemplateError("label %s used twice" % tag)
        asm.labels[tag] = {'props': props, 'item': item, 'kind': kind}
        mt = {'item': item, 'origin': kind, 'tag': tag, 'props': props}
        metas[k] = mt
        q = k - 1
        while q >= 0:
            code = text_lines[q].split('//')[0]
            if metas[q] is not None or LABEL_RE.search(text_lines[q]) or ends[q] or code.strip() == '' or KEYWORD_LINE.match(code):
                break
            metas[q] = mt
            q -= 1
    dflt = {'item': item, 'origin': kind, 'tag': default_tag, 'props': list(default_props)}
    return [(l, metas[k] or dflt) for k, l in enumerate(text_lines)]


class FnSpec:
    def __init__(self):
        self.attrs = []
        self.ret = None
        self.spec = []


class FnDirective:
    def __init__(self, file, name):
        self.file = file
        self.name = name
        self.impl = None
        self.props = []
        self.mode = 'proved'
        self.top = FnSpec()
        self.inner = {}
        self.loops = {}       # n -> (binder, lines)
        self.ghosts = []      # (where, n_or_k, anchor_text, lines)
        self.rewrites = []    # dict(kind,count,old,new,why)
        self.nocanary = False
        self.split = 0
        self.loop_heads = {}  # loop ordinal -> expected header text (optional)
        self.split_match = 1
        self.split_stub = ''


def parse_template(path):
    """returns list of ('lit', text) | ('type', ...) | ('macro', ...) | ('fn', FnDirective)"""
    lines = open(path, encoding='utf-8').read().split('\n')
    out = []
    i = 0
    n = len(lines)
    lit = []

    def flush():
        if lit:
            out.append(('lit', '\n'.join(lit)))
            lit.clear()

    def directive(l):
        st = l.strip()
        if st.startswith('//@') and not st.startswith('//@|') and not st.startswith('//@-') and not st.startswith('//@+'):
            return st[3:].strip().split()
        return None

    while i < n:
        l = lines[i]
        d = directive(l)
        if d is None:
            lit.append(l)
            i += 1
            continue
        if not d:
            i += 1
            continue
        if d[0] == 'type':
            flush()
            out.append(('type', d[1], d[2], d[3], parse_opts(d[4:])))
            i += 1
        elif d[0] == 'macro':
            flush()
            out.append(('macro', d[1], d[2]))
            i += 1
        elif d[0] == 'declorder':
            flush()
            out.append(('declorder', d[1], d[2], d[3]))
            i += 1
        elif d[0] == 'unit':
            flush()
            out.append(('unit', d[1]))
            i += 1
        elif d[0] == 'include':
            flush()
            inc = os.path.join(os.path.dirname(os.path.dirname(os.path.abspath(path))), d[1])
            if not os.path.exists(inc):
                inc = os.path.join(os.path.dirname(os.path.abspath(path)), d[1])
            out.extend(x for x in parse_template(inc) if x[0] != 'unit')
            i += 1
        elif d[0] == 'fn':
            flush()
            fd = FnDirective(d[1], d[2])
            cur = fd.top
            i += 1
            while True:
                if i >= n:
                    raise TemplateError("%s: fn %s not closed" % (path, fd.name))
                l = lines[i]
                d = directive(l)
                if d is None:
                    if l.strip() == '':
                        i += 1
                        continue
                    raise TemplateError("%s:%d: text outside a block in fn %s" % (path, i + 1, fd.name))
                i += 1
                if not d:
                    continue
                k = d[0]
                if k == 'end':
                    break
                elif k == 'in':
                    fd.impl = ' '.join(d[1:])
                elif k == 'props':
                    fd.props = d[1:]
                elif k == 'mode':
                    fd.mode = d[1]
                elif k == 'nocanary':
                    fd.nocanary = True
                elif k == 'splitmatch':
                    fd.split_match = int(d[1])
                elif k == 'splitalso':
                    fd.split_also = (int(d[1]), l.strip()[3:].strip()[len('splitalso'):].strip()[len(d[1]):].strip())
                elif k == 'split':
                    fd.split = int(d[1])
                    fd.split_stub = l.strip()[3:].strip()[len('split'):].strip()[len(d[1]):].strip()
                elif k == 'attr':
                    cur.attrs.append(l.strip()[3:].strip()[len('attr'):].strip())
                elif k == 'ret':
                    cur.ret = d[1]
                elif k == 'inner':
                    cur = fd.inner.setdefault(d[1], FnSpec())
                elif k == 'endinner':
                    cur = fd.top
                elif k in ('spec', 'loop', 'ghost', 'rewrite'):
                    body = []
                    anchor = []
                    old = []
                    new = []
                    why = ''
                    endk = 'end' + k
                    while True:
                        if i >= n:
                            raise TemplateError("%s: %s block not closed in %s" % (path, k, fd.name))
                        bl = lines[i]
                        i += 1
                        st = bl.strip()
                        if st.startswith('//@|'):
                            anchor.append(bl.split('//@|', 1)[1][1:] if bl.split('//@|', 1)[1].startswith(' ') else bl.split('//@|', 1)[1])
                            continue
                        if st.startswith('//@-'):
                            t = bl.split('//@-', 1)[1]
                            old.append(t[1:] if t.startswith(' ') else t)
                            continue
                        if st.startswith('//@+'):
                            t = bl.split('//@+', 1)[1]
                            new.append(t[1:] if t.startswith(' ') else t)
                            continue
                        dd = directive(bl)
                        if dd is not None:
                            if dd and dd[0] == endk:
                                break
                            if dd and dd[0] == 'why':
                                why = ' '.join(dd[1:])
                                continue
                            raise TemplateError("%s:%d: unexpected directive %s inside %s" % (path, i, dd, k))
                        body.append(bl)
                    if k == 'spec':
                        cur.spec = body
                    elif k == 'loop':
                        nn = int(d[1])
                        binder = d[3] if len(d) > 3 and d[2] == 'binder' else None
                        fd.loops[nn] = (binder, body)
                        if anchor:
                            # `//@| <loop header>`: the text from the loop keyword up to its `{`
                            fd.loop_heads[nn] = ' '.join(' '.join(anchor).split())
                    elif k == 'ghost':
                        where = d[1]
                        arg = int(d[2]) if len(d) > 2 else None
                        fd.ghosts.append((where, arg, '\n'.join(anchor), body))
                    else:
                        opts = parse_opts(d[2:])
                        fd.rewrites.append({'kind': d[1], 'count': int(opts.get('count', 1)),
                                            'old': '\n'.join(old), 'new': '\n'.join(new), 'why': why})
                else:
                    raise TemplateError("%s:%d: unknown directive %s" % (path, i, k))
            out.append(('fn', fd))
        else:
            raise TemplateError("%s:%d: unknown directive %s" % (path, i + 1, d[0]))
    flush()
    return out


def spec_with_canary(spec_lines):
    """insert `false` as an additional postcondition (vacuity canary)."""
    for k, l in enumerate(spec_lines):
        if re.match(r'\s*ensures\b', l):
            new = list(spec_lines)
            new[k] = re.sub(r'ensures\b', 'ensures false,', l, count=1)
            return new
    # no ensures: put one before decreases (or at the end)
    for k, l in enumerate(spec_lines):
        if re.match(r'\s*decreases\b', l):
            return spec_lines[:k] + ['    ensures false,'] + spec_lines[k:]
    return list(spec_lines) + ['    ensures false,']


def rewrite_guard(text, rw, item, asm):
    """R-guard: `PAT if GUARD => { BODY }` directly followed by the final arm `_ => EXPR` becomes
    `PAT => if GUARD { BODY } else { EXPR }` (EXPR copied from the function text itself, the `_`
    arm stays). Needed because the installed Verus cannot prove `final(self)` postconditions when
    a `&mut self` call sits inside a guarded arm. Semantics-preserving: when the guard is false
    Rust falls through to the next arm, which is `_`."""
    head = rw['old'].strip()
    m = re.fullmatch(r'(.*\S)\s+if\s+(.*\S)\s*=>\s*\{', head, re.S)
    if not m:
        raise TemplateError("guard rewrite needs `PAT if GUARD => {`: %r" % head)
    pat, guard = m.group(1), m.group(2)
    hre = re.compile(r'\s+'.join(re.escape(tok) for tok in head.split()))
    hits = list(hre.finditer(text))
    if len(hits) != 1:
        raise LostAnchor("guarded arm in %s occurs %d times: %r" % (item, len(hits), head[:70]))
    p = hits[0].start()
    mask = code_mask(text)
    ob = hits[0].end() - 1
    cb = match_close(mask, ob)
    # what follows must be the wildcard arm, possibly after arms whose head constructor differs
    # from PAT's (then they cannot match a value that matches PAT, and falling through to `_`
    # is what Rust does when the guard is false)
    def head_ctor(ptext):
        m2 = re.match(r'\s*\(?\s*([A-Za-z_][A-Za-z0-9_:]*)', ptext)
        return m2.group(1) if m2 else None
    my_ctor = head_ctor(pat)
    q = cb + 1
    skipped = []
    while True:
        while q < len(mask) and mask[q] in ' \n\t,':
            q += 1
        mm = re.match(r'_\s*=>\s*', mask[q:])
        if mm:
            break
        # another arm: find its `=>` at depth 0
        d = 0
        k2 = q
        arrow = None
        while k2 < len(mask):
            ch = mask[k2]
            if ch in '({[':
                d += 1
            elif ch in ')}]':
                if d == 0:
                    break
                d -= 1
            elif mask.startswith('=>', k2) and d == 0:
                arrow = k2
                break
            k2 += 1
        if arrow is None:
            raise LostAnchor("guarded arm in %s is not followed by a `_` arm" % item)
        other = text[q:arrow]
        oc = head_ctor(other)
        if ' if ' in mask[q:arrow] or oc is None or my_ctor is None or oc == my_ctor:
            raise LostAnchor("guarded arm in %s: cannot show that the arm `%s` is disjoint" % (item, ' '.join(other.split())[:60]))
        skipped.append(' '.join(other.split())[:80])
        # skip the arm body
        k3 = arrow + 2
        while mask[k3] in ' \n\t':
            k3 += 1
        if mask[k3] == '{':
            q = match_close(mask, k3) + 1
        else:
            d = 0
            while k3 < len(mask):
                ch = mask[k3]
                if ch in '({[':
                    d += 1
                elif ch in ')}]':
                    if d == 0:
                        break
                    d -= 1
                elif ch == ',' and d == 0:
                    break
                k3 += 1
            q = k3
    es = q + mm.end()
    # the `_` arm expression runs to the brace closing the match
    depth = 0
    k = es
    while k < len(mask):
        ch = mask[k]
        if ch in '({[':
            depth += 1
        elif ch in ')}]':
            if depth == 0:
                break
            depth -= 1
        k += 1
    expr = text[es:k].rstrip()
    if expr.endswith(','):
        expr = expr[:-1].rstrip()
    body = text[ob:cb + 1]
    new = '%s => if %s %s else { %s }' % (pat, guard, body, expr)
    asm.log['rewrites'].append({'item': item, 'kind': 'rule:R-guard', 'count': 1, 'old': head,
                                'new': '%s => if %s { .. } else { <text of the `_` arm> }' % (pat, guard),
                                'skipped_disjoint_arms': skipped,
                                'why': rw['why'] or 'Verus limitation with &mut calls in guarded arms; falls through to `_` exactly like the guard'})
    return text[:p] + new + text[cb + 1:]


def match_arms(text, mask, match_pos):
    """arms of the `match` whose keyword starts at match_pos: list of (head_start, arrow_end, body_end)
    where text[head_start:arrow_end] is `PAT =>` and text[arrow_end:body_end] the arm expression."""
    ob = header_brace(mask, match_pos)
    cb = match_close(mask, ob)
    arms = []
    q = ob + 1
    while True:
        while q < cb and mask[q] in ' \n\t,':
            q += 1
        if q >= cb:
            break
        d = 0
        k = q
        arrow = None
        while k < cb:
            ch = mask[k]
            if ch in '({[':
                d += 1
            elif ch in ')}]':
                d -= 1
            elif mask.startswith('=>', k) and d == 0:
                arrow = k
                break
            k += 1
        if arrow is None:
            raise LostAnchor("cannot parse match arms")
        b = arrow + 2
        while mask[b] in ' \n\t':
            b += 1
        if mask[b] == '{':
            e = match_close(mask, b) + 1
        elif re.match(r'(if|match)\b', mask[b:b + 6]):
            # an expression with a block (`if .. {} else {}`, `match .. {}`): the arm ends with its last
            # block, the `,` after it is optional
            e = b
            while True:
                hb2 = header_brace(mask, e)
                e = match_close(mask, hb2) + 1
                m2 = re.match(r'\s*else\b\s*', mask[e:])
                if not m2:
                    break
                e += m2.end()
                if mask[e] == '{':
                    e = match_close(mask, e) + 1
                    break
        else:
            d = 0
            e = b
            while e < cb:
                ch = mask[e]
                if ch in '({[':
                    d += 1
                elif ch in ')}]':
                    if d == 0:
                        break
                    d -= 1
                elif ch == ',' and d == 0:
                    break
                e += 1
        arms.append((q, arrow + 2, e))
        q = e
    return arms, ob, cb


def split_by_arms(full, full_lines, line_metas, fd, item, canary):
    """Proof by cases over the arms of the function's first `match`: part k is a copy of the whole
    (spliced) function, renamed NAME__partK, in which the arms NOT assigned to k have their body
    replaced by the stub (an early error return). Every arm keeps its real body in exactly one
    part; everything outside the arms is identical in all parts. The caller emits the original
    function as a contract-only stub, so recursive calls see the contract."""
    mask = code_mask(full)
    fm = re.search(r'\bfn\s+' + re.escape(fd.name + ('__canary' if canary else '')) + r'\b', mask)
    body_open = None
    # first `match` keyword after the function's opening brace at depth 1
    sig_br = None
    d = 0
    k = fm.start()
    while k < len(mask):
        if mask[k] in '([':
            d += 1
        elif mask[k] in ')]':
            d -= 1
        elif mask[k] == '{' and d == 0:
            sig_br = k
            break
        k += 1
    # `split K STUB`: the K-th `match` keyword of the body (K = 1 unless the template says `splitmatch K`)
    mms = list(re.finditer(r'\bmatch\b', mask[sig_br:]))
    want = getattr(fd, 'split_match', 1)
    if len(mms) < want:
        raise LostAnchor("split: no match #%d in %s" % (want, item))
    mpos = sig_br + mms[want - 1].start()
    arms, ob, cb = match_arms(full, mask, mpos)
    if len(arms) < 2:
        raise LostAnchor("split: fewer than two arms in %s" % item)
    # an arm whose body is itself a `match` with four or more arms is split one level further: its
    # sub-arms become cases of their own (BinOp => match op { .. } in TypeChecker::expression)
    flat = []
    for (h, a, e) in arms:
        b = a
        while b < e and mask[b] in ' \n\t':
            b += 1
        if re.match(r'match\b', mask[b:b + 6]):
            sub, sob, scb = match_arms(full, mask, b)
            if len(sub) >= 4 and scb + 1 >= e - 1:
                flat.extend(sub)
                continue
        flat.append((h, a, e))
    arms = flat
    # one part per arm whose body spans at least 3 lines; all smaller arms share the last part
    big = [idx for idx, (h, a, e) in enumerate(arms) if full.count('\n', a, e) >= 2]
    small = [idx for idx in range(len(arms)) if idx not in big]
    assign = {}
    for k2, idx in enumerate(big):
        assign[idx] = k2
    for idx in small:
        assign[idx] = len(big)
    nparts = len(big) + (1 if small else 0)
    if canary:
        # the canary copy keeps only the smallest arm real (enough to type-check the match)
        cand = [q for q in range(len(arms)) if 'unreachable' not in full[arms[q][1]:arms[q][2]] and 'return' not in full[arms[q][1]:arms[q][2]]] or list(range(len(arms)))
        smallest = min(cand, key=lambda q: arms[q][2] - arms[q][1])
        assign = {idx: (0 if idx == smallest else 1) for idx in range(len(arms))}
        nparts = 1
    # line index of every char offset
    line_of = []
    ln = 0
    for ch in full:
        line_of.append(ln)
        if ch == '\n':
            ln += 1
    line_of.append(ln)
    parts = []
    stub_meta = {'item': item, 'origin': 'stub', 'tag': None, 'props': fd.props}
    # `splitalso K STUB`: a second match (typically the body of an earlier loop) whose arms are real in
    # ONE extra part only - in which all arms of the primary match are cut - and cut in every other
    # part. The loop around it is then proved inductive once; the other parts use its invariant.
    arms2 = []
    if getattr(fd, 'split_also', None):
        k2, stub2 = fd.split_also
        if len(mms) < k2:
            raise LostAnchor("splitalso: no match #%d in %s" % (k2, item))
        arms2, _, _ = match_arms(full, mask, sig_br + mms[k2 - 1].start())
    extra = 1 if (arms2 and not canary) else 0
    for part in range(nparts + extra):
        cuts = []   # (arrow_end, body_end, stub)
        for idx, (h, a, e) in enumerate(arms):
            if part >= nparts or assign[idx] != part:
                cuts.append((a, e, fd.split_stub))
        for (h, a, e) in arms2:
            if part < nparts:
                cuts.append((a, e, stub2))
        cuts.sort()
        pieces = []   # (text, origin_line or None)
        pos = 0
        for (a, e, st) in cuts:
            pieces.append((full[pos:a], pos))
            pieces.append((' ' + st, None))
            pos = e
        pieces.append((full[pos:], pos))
        # rename
        out_lines = []
        out_metas = []
        cur = ''
        cur_meta = None
        for (t, origin) in pieces:
            o = origin
            for ch in t:
                if cur_meta is None and o is not None:
                    cur_meta = line_metas[line_of[o]]
                if ch == '\n':
                    out_lines.append(cur)
                    out_metas.append(cur_meta or stub_meta)
                    cur = ''
                    cur_meta = None
                else:
                    cur += ch
                if o is not None:
                    o += 1
        out_lines.append(cur)
        out_metas.append(cur_meta or stub_meta)
        suffix = '__canary' if canary else '__part%d' % (part + 1)
        if not canary:
            ren = re.compile(r'\bfn(\s+)' + re.escape(fd.name) + r'\b')
            done = False
            for q, l in enumerate(out_lines):
                if not done and ren.search(l):
                    out_lines[q] = ren.sub('fn\\g<1>' + fd.name + suffix, l, count=1)
                    done = True
        parts.append((out_lines, out_metas))
    return parts


def splice_fn(fd, files, asm, canary=False, record=True):
    src = files.get(fd.file)
    scopes = None
    if fd.impl:
        scopes = src.impl_blocks(fd.impl)
        if not scopes:
            raise LostAnchor("impl %s not found in %s" % (fd.impl, fd.file))
    start, sigbr, close = src.find_fn(fd.name, scopes)
    raw = src.text[start:close + 1]
    first_line = src.line_of(start)
    last_line = src.line_of(close)
    item = fd.name if not fd.impl else '%s::%s' % (fd.impl.split()[-1].split('<')[0], fd.name)
    # D-attr inside the body, doc comments flattened
    text, removed = strip_attributes(raw)
    for r in removed:
        asm.log['dropped_attributes'].append({'item': item, 'attr': r})
    t2 = doc_to_plain(text)
    if t2 != text:
        asm.log['doc_comments_flattened'] += 1
    text = t2
    # dedent to column 0 of the fn line
    ind = len(text) - len(text.lstrip(' '))
    if ind:
        text = '\n'.join(l[ind:] if l.startswith(' ' * ind) else l for l in text.split('\n'))
    # exact-text rewrites
    rewritten_lines = 0
    for rw in fd.rewrites:
        if rw['kind'] == 'guard':
            text = rewrite_guard(text, rw, item, asm)
            rewritten_lines += 1
            continue
        if '\n' in rw['old']:
            # multi-line rewrites: whole lines, compared modulo indentation
            olines = [x.strip() for x in rw['old'].split('\n') if x.strip()]
            tl = text.split('\n')
            # blank lines inside the replaced region do not count (on either side)
            nb = [k for k in range(len(tl)) if tl[k].strip()]
            hits_nb = [j for j in range(len(nb) - len(olines) + 1)
                       if all(tl[nb[j + q]].strip() == olines[q] for q in range(len(olines)))]
            hits = [nb[j] for j in hits_nb]
            ends = {nb[j]: nb[j + len(olines) - 1] for j in hits_nb}
            cnt = len(hits)
            if cnt > rw['count']:
                raise LostAnchor("rewrite anchor in %s occurs %d times, expected %d: %r"
                                 % (item, cnt, rw['count'], rw['old'][:80]))
            if cnt < rw['count']:
                # the text a rewrite replaces is (partly) gone from this tree: there is nothing to
                # replace, the function text goes to the verifier as it is (which accepts it or not)
                asm.log.setdefault('rewrites_not_applicable', []).append(
                    {'item': item, 'kind': rw['kind'], 'found': cnt, 'expected': rw['count'], 'old': rw['old']})
            for k in reversed(hits):
                ind = tl[k][:len(tl[k]) - len(tl[k].lstrip())]
                tl[k:ends[k] + 1] = [ind + x.strip() for x in rw['new'].split('\n')]
            text = '\n'.join(tl)
        else:
            # single-line rewrites are matched modulo surrounding indentation
            rw = dict(rw, old=rw['old'].strip(), new=rw['new'].strip())
            cnt = text.count(rw['old'])
            if cnt > rw['count']:
                raise LostAnchor("rewrite anchor in %s occurs %d times, expected %d: %r"
                                 % (item, cnt, rw['count'], rw['old'][:80]))
            if cnt < rw['count']:
                asm.log.setdefault('rewrites_not_applicable', []).append(
                    {'item': item, 'kind': rw['kind'], 'found': cnt, 'expected': rw['count'], 'old': rw['old']})
            text = text.replace(rw['old'], rw['new'])
        rewritten_lines += (rw['old'].count('\n') + 1) * cnt
        asm.log['rewrites'].append({'item': item, 'kind': rw['kind'], 'count': cnt,
                                    'old': rw['old'], 'new': rw['new'], 'why': rw['why']})
    if canary:
        # the canary is a *copy* of the function under another name, so that callers of the
        # original never see the `false` postcondition
        text, nsub = re.subn(r'\bfn(\s+)' + re.escape(fd.name) + r'\b', 'fn\\g<1>' + fd.name + '__canary', text, count=1)
        if nsub != 1:
            raise LostAnchor("cannot rename %s for the canary copy" % item)
    mask = code_mask(text)
    code_meta = {'item': item, 'origin': 'code', 'tag': None, 'props': fd.props}
    inserts = []   # (pos, seq, [(line, meta)] or str, inline:bool)
    seq = [0]

    def ins(pos, payload, inline=False):
        seq[0] += 1
        inserts.append((pos, seq[0], payload, inline))

    def fn_points(fn_kw_pos):
        """(sig brace, arrow type span or None) for the fn whose keyword is at fn_kw_pos"""
        d = 0
        k = fn_kw_pos
        br = None
        arrow = None
        where_seen = False
        while k < len(mask):
            ch = mask[k]
            if ch in '([':
                d += 1
            elif ch in ')]':
                d -= 1
            elif ch == '{' and d == 0:
                br = k
                break
            elif mask.startswith('->', k) and d == 0 and not where_seen:
                # (arrows after `where` belong to Fn(..) -> .. bounds, not to the signature)
                arrow = k
            elif d == 0 and mask.startswith('where', k) and not (mask[k - 1].isalnum() or mask[k - 1] == '_') \
                    and not (mask[k + 5].isalnum() or mask[k + 5] == '_'):
                where_seen = True
            k += 1
        if br is None:
            raise LostAnchor("no body in %s" % item)
        return br, arrow

    def do_spec(fs, fn_kw_pos, label_item, is_top):
        br, arrow = fn_points(fn_kw_pos)
        line_start = text.rfind('\n', 0, fn_kw_pos) + 1
        attrs = list(fs.attrs)
        if fd.mode == 'assumed' and is_top:
            attrs.append('#[verifier::external_body]')
        for a in attrs:
            if not a.startswith('#[verifier::'):
                raise TemplateError("only verifier attributes may be spliced: %s" % a)
        if attrs:
            indent = text[line_start:fn_kw_pos]
            indent = indent[:len(indent) - len(indent.lstrip())]
            ins(line_start, [(indent + a, {'item': label_item, 'origin': 'attr', 'tag': None, 'props': fd.props})
                             for a in attrs])
        if fs.ret:
            if arrow is None:
                raise LostAnchor("fn %s has no return type to name" % label_item)
            ts = arrow + 2
            while text[ts] == ' ':
                ts += 1
            # type ends before `where` or the body brace
            te = br
            w = re.search(r'\bwhere\b', mask[ts:br])
            if w:
                te = ts + w.start()
            while text[te - 1] in ' \n\t':
                te -= 1
            ins(ts, '(%s: ' % fs.ret, inline=True)
            ins(te, ')', inline=True)
        spec = fs.spec
        if canary and is_top and fd.mode == 'proved' and not fd.nocanary:
            spec = spec_with_canary(spec)
        if spec:
            payload = labelled(spec, fd.props, label_item, 'spec', asm)
            # place before the brace, on own lines
            ins(br, ('SPEC', payload), inline=True)
        return br

    # top-level fn keyword
    m = re.search(r'\bfn\s+' + re.escape(fd.name + ('__canary' if canary else '')) + r'\b', mask)
    top_br = do_spec(fd.top, m.start(), item, True)
    for iname, fs in fd.inner.items():
        ms = list(re.finditer(r'\bfn\s+' + re.escape(iname) + r'\b', mask))
        if len(ms) != 1:
            raise LostAnchor("inner fn %s of %s: %d matches" % (iname, item, len(ms)))
        do_spec(fs, ms[0].start(), item + '/' + iname, False)

    if fd.mode == 'proved':
        loops = loop_positions(text, mask)
        loops = [(p, kw) for (p, kw) in loops if p > top_br]
        # loop ordinals of the template -> loops of this tree. Identity, unless the template gives the
        # expected header of its loops and they do not line up (a loop was removed or added): then the
        # longest common subsequence of headers decides, and contracts of loops that are gone are skipped
        loop_map = {}
        tmpl_n = sorted(set(list(fd.loops.keys()) + [a for (w, a, _, _) in fd.ghosts if w in ('before-loop', 'loop-body', 'loop-end', 'after-loop') and a is not None]))
        heads_here = [' '.join(text[p:header_brace(mask, p)].split()) for (p, kw) in loops]
        lined_up = all((nn <= len(loops)) and (nn not in fd.loop_heads or heads_here[nn - 1] == fd.loop_heads[nn]) for nn in tmpl_n)
        if lined_up and (not fd.loop_heads or len(loops) == max(fd.loop_heads)):
            loop_map = {nn: nn - 1 for nn in tmpl_n}
        elif fd.loop_heads and all(nn in fd.loop_heads for nn in tmpl_n):
            A = [fd.loop_heads[nn] for nn in tmpl_n]
            B = heads_here
            L = [[0] * (len(B) + 1) for _ in range(len(A) + 1)]
            for ia in range(len(A) - 1, -1, -1):
                for ib in range(len(B) - 1, -1, -1):
                    L[ia][ib] = L[ia + 1][ib + 1] + 1 if A[ia] == B[ib] else max(L[ia + 1][ib], L[ia][ib + 1])
            ia = ib = 0
            while ia < len(A) and ib < len(B):
                if A[ia] == B[ib]:
                    loop_map[tmpl_n[ia]] = ib
                    ia += 1
                    ib += 1
                elif L[ia + 1][ib] >= L[ia][ib + 1]:
                    ia += 1
                else:
                    ib += 1
            gone = [nn for nn in tmpl_n if nn not in loop_map]
            asm.log.setdefault('loops_not_present', []).append({'item': item, 'template_loops': gone,
                                                                 'loops_here': len(loops)})
        else:
            bad = [nn for nn in tmpl_n if nn > len(loops)]
            raise LostAnchor("%s has %d loops, contract refers to loop %s" % (item, len(loops), bad[:1] or tmpl_n))
        for nn, (binder, body) in fd.loops.items():
            if nn not in loop_map:
                continue
            p, kw = loops[loop_map[nn]]
            hb = header_brace(mask, p)
            if binder:
                if kw != 'for':
                    raise LostAnchor("loop %d of %s is not a for loop" % (nn, item))
                mi = re.search(r'\bin\b', mask[p:hb])
                if not mi:
                    raise LostAnchor("for without in")
                q = p + mi.end()
                ins(q, ' %s:' % binder, inline=True)
            payload = labelled(body, fd.props, item, 'loop%d' % nn, asm)
            ins(hb, ('SPEC', payload), inline=True)
        for (where, arg, anchor, body) in fd.ghosts:
            for bl in body:
                if not GHOST_OK.match(bl.strip()) and not bl.startswith(' ') and not bl.startswith('\t'):
                    raise TemplateError("ghost block in %s holds non-ghost text: %s" % (item, bl))
            kind = 'ghost'
            payload = labelled(body, fd.props, item, kind, asm)
            if where == 'entry':
                ins(top_br + 1, ('BLOCK', payload), inline=True)
            elif where in ('before-loop', 'loop-body', 'loop-end', 'after-loop'):
                if arg is None:
                    raise LostAnchor("%s: ghost anchor without loop number" % item)
                if arg not in loop_map:
                    continue
                p, kw = loops[loop_map[arg]]
                hb = header_brace(mask, p)
                if where == 'before-loop':
                    ls = text.rfind('\n', 0, p) + 1
                    # a labelled loop / `let x = loop` starts earlier on the line: anchor at line start
                    ins(ls, ('LINES', payload), inline=True)
                elif where == 'loop-body':
                    ins(hb + 1, ('BLOCK', payload), inline=True)
                elif where == 'loop-end':
                    # in front of the line that holds the closing brace of the loop body
                    ce = match_close(mask, hb)
                    ls = text.rfind('\n', 0, ce) + 1
                    if text[ls:ce].strip() not in ('', '}'):
                        raise LostAnchor("%s: the closing brace of loop %d is not on a line of its own" % (item, arg))
                    ins(ls, ('LINES', payload), inline=True)
                else:
                    ce = match_close(mask, hb)
                    le = text.find('\n', ce)
                    if le == -1:
                        le = len(text)
                    ins(le, ('BLOCK', payload), inline=True)
            elif where in ('before', 'after'):
                # anchors are whole source lines, compared modulo leading/trailing whitespace
                alines = [x.strip() for x in anchor.split('\n') if x.strip() != '']
                tlines = text.split('\n')
                starts = []
                off = 0
                offs_l = []
                for tl in tlines:
                    offs_l.append(off)
                    off += len(tl) + 1
                for k in range(len(tlines) - len(alines) + 1):
                    if all(tlines[k + q].strip() == alines[q] for q in range(len(alines))):
                        starts.append(k)
                want = 1 if arg is None else arg
                if not alines or (arg is None and len(starts) != 1) or len(starts) < want:
                    raise LostAnchor("ghost anchor in %s occurs %d times%s: %r" % (
                        item, len(starts), '' if arg is None else ', want #%d' % want, anchor[:60]))
                k = starts[want - 1]
                if where == 'before':
                    ins(offs_l[k], ('LINES', payload), inline=True)
                else:
                    last = k + len(alines) - 1
                    ins(offs_l[last] + len(tlines[last]), ('BLOCK', payload), inline=True)
            else:
                raise TemplateError("unknown ghost anchor kind %s" % where)
    else:
        if fd.loops or fd.ghosts:
            raise TemplateError("assumed fn %s cannot carry loop/ghost splices" % item)

    # build output
    inserts.sort(key=lambda t: (t[0], t[1]))
    segs = []
    p = 0
    body_cut = None
    if fd.mode == 'assumed':
        body_cut = top_br
    for (pos, _, payload, inline) in inserts:
        if body_cut is not None and pos > body_cut:
            continue
        segs.append(Seg(text[p:pos], code_meta))
        p = pos
        if isinstance(payload, str):
            segs.append(Seg(payload, {'item': item, 'origin': 'ret', 'tag': None, 'props': fd.props}))
        elif isinstance(payload, list):
            for (l, meta) in payload:
                segs.append(Seg(l + '\n', meta))
        else:
            how, pl = payload
            if how == 'SPEC':
                # newline, clauses, newline, then the brace follows
                # strip trailing space before the brace in previous code seg
                if segs and segs[-1].meta is code_meta:
                    segs[-1].text = segs[-1].text.rstrip(' ')
                segs.append(Seg('\n', code_meta))
                for (l, meta) in pl:
                    segs.append(Seg(l + '\n', meta))
            elif how == 'BLOCK':
                segs.append(Seg('\n', code_meta))
                for k, (l, meta) in enumerate(pl):
                    segs.append(Seg(l + ('\n' if k < len(pl) - 1 else ''), meta))
            elif how == 'LINES':
                for (l, meta) in pl:
                    segs.append(Seg(l + '\n', meta))
    if body_cut is not None:
        segs.append(Seg(text[p:body_cut], code_meta))
        segs.append(Seg('{ unimplemented!() }', {'item': item, 'origin': 'stub', 'tag': None, 'props': fd.props}))
    else:
        segs.append(Seg(text[p:], code_meta))
    # integrity: removing all splices gives back the post-rewrite text (modulo the whitespace
    # that SPEC insertion trims before a brace)
    if body_cut is None:
        back = ''.join(s.text for s in segs if s.meta is code_meta)
        if re.sub(r'\s+', '', back) != re.sub(r'\s+', '', text):
            raise TemplateError("splice integrity check failed for %s" % item)
    # emit lines with per-line meta (first non-code segment on the line wins)
    full = ''.join(s.text for s in segs)
    offs = []
    o = 0
    for s in segs:
        offs.append((o, o + len(s.text), s.meta))
        o += len(s.text)
    line_start = 0
    base_line = len(asm.lines)
    full_lines = full.split('\n')
    line_metas = []
    for l in full_lines:
        le = line_start + len(l)
        meta = code_meta
        for (a, b, mt) in offs:
            if b > line_start and a <= le and mt is not code_meta and b > a:
                if a < le or (a == le and False):
                    meta = mt
                    if mt.get('tag'):
                        break
        line_metas.append(meta)
        line_start = le + 1
    if fd.split and fd.mode == 'proved':
        parts = split_by_arms(full, full_lines, line_metas, fd, item, canary)
        asm.split_info[item] = len(parts)
        want = getattr(asm, 'part_select', None)
        for pk, (plines, pmetas) in enumerate(parts):
            if canary or (want is not None and want == (item, pk)):
                asm.lines.extend(plines)
                asm.meta.extend(pmetas)
                asm.lines.append('')
                asm.meta.append(code_meta)
    else:
        asm.lines.extend(full_lines)
        asm.meta.extend(line_metas)
    n_code = text.count('\n') + 1
    if record:
        asm.items.append({'item': item, 'file': fd.file, 'lines': [first_line, last_line], 'mode': fd.mode,
                      'props': fd.props, 'code_lines': n_code if fd.mode == 'proved' else 0,
                      'rewritten_lines': rewritten_lines, 'nocanary': fd.nocanary,
                      'asm_lines': [base_line + 1, len(asm.lines)],
                      'clauses': sum(1 for (_, _, pl, _) in inserts if not isinstance(pl, (str, list)) for _ in [0])})
    return item


def emit_type(file, kind, name, opts, files, asm):
    src = files.get(file)
    a, s, e = src.find_item(kind, name)
    head = src.text[a:s]
    body = src.text[s:e]
    derives = []
    for m in re.finditer(r'#\[\s*derive\(([^)]*)\)\s*\]', head):
        derives += [d.strip() for d in m.group(1).split(',') if d.strip()]
    body, removed = strip_attributes(body)
    for r in removed:
        asm.log['dropped_attributes'].append({'item': name, 'attr': r})
    other_attrs = [l.strip() for l in head.split('\n') if l.strip().startswith('#[') and 'derive' not in l]
    for r in other_attrs:
        asm.log['dropped_attributes'].append({'item': name, 'attr': r})
    body = doc_to_plain(body)
    body = re.sub(r'\bpub\s*\(\s*crate\s*\)', 'pub', body)
    keep_default = {'Copy', 'Eq', 'Hash', 'PartialOrd', 'Ord'}
    keep = set(opts['keep'].split(',')) if 'keep' in opts else keep_default
    is_copy = 'Copy' in derives
    kept = [d.split('::')[-1] for d in derives if d.split('::')[-1] in keep]
    out = []
    meta = {'item': name, 'origin': 'type', 'tag': None, 'props': []}
    generics = ''
    gm = re.match(r'\s*(?:pub\s+)?' + kind + r'\s+' + re.escape(name) + r'\s*(<[^>{(;]*>)?', body)
    if gm and gm.group(1):
        generics = gm.group(1)
    def impl_hdr(tr):
        if generics:
            return 'impl%s %s for %s%s' % (generics, tr, name, generics)
        return 'impl %s for %s' % (tr, name)
    if kind in ('enum', 'struct'):
        clone_mode = opts.get('clone', 'keep' if is_copy else 'ext')
        eq_mode = opts.get('eq', 'keep' if is_copy else 'ext')
        if 'Clone' in derives:
            if clone_mode == 'keep':
                kept.append('Clone')
            elif clone_mode == 'ext':
                out.append('%s { #[verifier::external_body] fn clone(&self) -> (r: Self) ensures r == *self { unimplemented!() } }' % impl_hdr('Clone'))
                asm.log['derive_replacements'].append({'type': name, 'derive': 'Clone', 'assumed': 'clone returns a structurally equal value'})
        if 'PartialEq' in derives:
            if eq_mode == 'keep':
                kept.append('PartialEq')
            elif eq_mode == 'ext':
                out.append('%s { #[verifier::external_body] fn eq(&self, other: &Self) -> (r: bool) ensures r == (*self == *other) { unimplemented!() } }' % impl_hdr('PartialEq'))
                out.append('impl PartialEqSpecImpl for %s { open spec fn obeys_eq_spec() -> bool { true } open spec fn eq_spec(&self, other: &%s) -> bool { *self == *other } }' % (name, name))
                asm.log['derive_replacements'].append({'type': name, 'derive': 'PartialEq', 'assumed': '== is structural equality'})
        dropped = [d for d in derives if d.split('::')[-1] not in kept and d.split('::')[-1] not in ('Clone', 'PartialEq')]
        for d in dropped:
            asm.log['dropped_attributes'].append({'item': name, 'attr': 'derive(%s)' % d})
        if kept:
            # stable order
            seen = []
            for d in kept:
                if d not in seen:
                    seen.append(d)
            out.append('#[derive(%s)]' % ', '.join(seen))
    out.append(body)
    asm.add('\n'.join(out), meta)
    asm.items.append({'item': name, 'file': file, 'lines': [src.line_of(s), src.line_of(e)], 'mode': 'type',
                      'props': [], 'code_lines': body.count('\n') + 1, 'rewritten_lines': 0})


def emit_macro(file, name, files, asm):
    src = files.get(file)
    a, e = src.find_macro(name)
    asm.add(src.text[a:e], {'item': 'macro ' + name, 'origin': 'code', 'tag': None, 'props': []})
    asm.items.append({'item': 'macro ' + name, 'file': file, 'lines': [src.line_of(a), src.line_of(e)],
                      'mode': 'macro', 'props': [], 'code_lines': src.text[a:e].count('\n') + 1,
                      'rewritten_lines': 0})


def emit_declorder(file, name, fnname, files, asm):
    """spec fn giving every variant of a field-less enum its position in the *declaration found in
    /repo* - the order Rust's derive(PartialOrd) compares by."""
    src = files.get(file)
    a, s, e = src.find_item('enum', name)
    body = src.text[s:e]
    body, _ = strip_attributes(body)
    mask = code_mask(body)
    br = mask.index('{')
    inner = mask[br + 1:match_close(mask, br)]
    variants = [v.strip() for v in inner.split(',') if v.strip()]
    for v in variants:
        if not re.fullmatch(r'[A-Za-z_][A-Za-z0-9_]*', v):
            raise LostAnchor("enum %s is not field-less: %r" % (name, v))
    arms = ', '.join('%s::%s => %d' % (name, v, k) for k, v in enumerate(variants))
    asm.add('pub open spec fn %s(p: %s) -> int { match p { %s } }' % (fnname, name, arms),
            {'item': fnname, 'origin': 'generated', 'tag': None, 'props': []})


def assemble(template_path, files, canary=False, part=None):
    """part=(item, k): a file in which every proved function is a contract-only stub except part k of
    the split function `item` (proof by cases over match arms, one file per case so that the cases
    can be verified by parallel verifier processes)."""
    asm = Assembled()
    asm.part_select = part
    tpl_meta = {'item': None, 'origin': 'template', 'tag': None, 'props': []}
    asm.unit = os.path.basename(os.path.dirname(template_path))
    asm.template_lines = 0
    for d in parse_template(template_path):
        if d[0] == 'lit':
            # labels inside hand-written lemma/spec text are allowed too
            cur = dict(tpl_meta)
            for l in d[1].split('\n'):
                m = LABEL_RE.search(l)
                if m:
                    cur = {'item': None, 'origin': 'template', 'tag': m.group(2), 'props': m.group(1).split(',')}
                    asm.labels[m.group(2)] = {'props': cur['props'], 'item': None, 'kind': 'template'}
                asm.lines.append(l)
                asm.meta.append(cur)
                if l.strip() and not l.strip().startswith('//'):
                    asm.template_lines += 1
        elif d[0] == 'unit':
            asm.unit = d[1]
        elif d[0] == 'type':
            emit_type(d[1], d[2], d[3], d[4], files, asm)
        elif d[0] == 'macro':
            emit_macro(d[1], d[2], files, asm)
        elif d[0] == 'declorder':
            emit_declorder(d[1], d[2], d[3], files, asm)
        elif d[0] == 'fn':
            if canary and d[1].mode == 'proved' and not d[1].nocanary:
                # canary file: the original keeps its contract but its body is not re-verified;
                # the renamed copy carries `ensures false`
                import copy
                stub = copy.copy(d[1])
                stub.mode = 'assumed'
                stub.loops = {}
                stub.ghosts = []
                splice_fn(stub, files, asm, canary=False, record=False)
                splice_fn(d[1], files, asm, canary=True, record=False)
                fake = copy.copy(d[1])
                asm.items.append({'item': (d[1].name if not d[1].impl else '%s::%s' % (d[1].impl.split()[-1].split('<')[0], d[1].name)),
                                  'mode': 'proved', 'nocanary': False, 'file': d[1].file, 'lines': [0, 0], 'props': d[1].props,
                                  'code_lines': 0, 'rewritten_lines': 0})
            elif d[1].mode == 'proved' and not canary and (d[1].split or part is not None):
                import copy
                stub = copy.copy(d[1])
                stub.mode = 'assumed'
                stub.loops = {}
                stub.ghosts = []
                stub.split = 0
                splice_fn(stub, files, asm, canary=False, record=False)
                if d[1].split:
                    # main file: only records the item and the number of parts; part file: emits part k
                    splice_fn(d[1], files, asm, canary=False, record=(part is None))
                elif part is None:
                    pass
            else:
                splice_fn(d[1], files, asm, canary=False)
    return asm
