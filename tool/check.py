#!/usr/bin/env python3
"""./bin/check <property> [--tier quick|thorough] [--replay FILE] [--keep DIR]

Decides one property of /verif/properties.jsonl for the current /repo working tree by contract-based
deductive verification (Verus) of function text extracted from /repo on this run.

exit 0  every obligation owned by the property was discharged (KNOWN-FINDING lines for listed ones)
exit 1  `VIOLATION property=<id> replay=<path>` - an obligation owned by the property fails
exit 2  inconclusive (lost anchor, construct outside the verifier's reach, resource limit,
        unstable proof, vacuous contract) - never reported as a violation
"""
import argparse
import json
import os
import subprocess
import sys
import time

HERE = os.path.dirname(os.path.abspath(__file__))
VERIF = os.path.dirname(HERE)
sys.path.insert(0, HERE)
import runner  # noqa: E402
from assemble import TemplateError  # noqa: E402

INDEX = json.load(open(os.path.join(VERIF, 'units', 'index.json')))


def load_known():
    p = os.path.join(VERIF, 'known_findings.json')
    if not os.path.exists(p):
        return {'findings': [], 'fixed': []}
    return json.load(open(p))


def witness_search(prop, failures, tier):
    """drive the real code with inputs from the contract's finite domain; only ever *adds* a
    concrete input to a violation that the verifier already reported."""
    drv = os.path.join(VERIF, 'replay', 'run_witness.py')
    if not os.path.exists(drv):
        return None
    try:
        p = subprocess.run([sys.executable, drv, prop, json.dumps([f['obligation'] for f in failures])],
                           capture_output=True, text=True, timeout=900)
        if p.returncode == 0 and p.stdout.strip():
            return json.loads(p.stdout.strip().split('\n')[-1])
    except Exception as e:  # the search is best effort
        return {'error': str(e)}
    return None


def main():
    ap = argparse.ArgumentParser()
    ap.add_argument('prop')
    ap.add_argument('--tier', default=os.environ.get('VERIF_TIER', 'quick'))
    ap.add_argument('--replay')
    ap.add_argument('--keep')
    ap.add_argument('--no-evidence', action='store_true')
    a = ap.parse_args()
    prop = a.prop
    tier = a.tier if a.tier in ('quick', 'thorough') else 'quick'
    try:
        seed = int(os.environ.get('VERIF_SEED', '0'))
    except ValueError:
        seed = 0
    seed = seed % 100000
    if prop not in INDEX['properties']:
        print("property %s is not claimed (see MANIFEST.json not_applicable)" % prop)
        return 2
    if a.replay:
        return replay(prop, a.replay, tier, seed)
    pinfo = INDEX['properties'][prop]
    t0 = time.time()
    results = []
    try:
        from concurrent.futures import ThreadPoolExecutor
        with ThreadPoolExecutor(max_workers=4) as ex:
            futs = [ex.submit(runner.run_unit, u, tier, seed, a.keep) for u in pinfo['units']]
            results = [f.result() for f in futs]
    except TemplateError as e:
        print("TOOL ERROR: %s" % e)
        return 2
    extra = {}
    if tier == 'thorough':
        for hook in pinfo.get('thorough_extra', []):
            extra[hook] = run_extra(hook)
    inconclusive = []
    failures = []
    for hook, res in extra.items():
        if res.get('status') == 'FAILED':
            failures.append({'obligation': 'KANI::%s::assertion-failed[%s]' % (hook, res.get('harness')), 'unit': 'KANI', 'item': hook,
                             'tag': res.get('harness'), 'props': [prop], 'kind': 'Kani harness on the real crate failed', 'clause': res.get('harness'),
                             'site': hook, 'verifier_output': res.get('tail', '')})
        elif res.get('status') in ('timeout', 'tool-error', 'missing', 'error'):
            # the facts stay listed as assumptions; never a violation
            pass
    for r in results:
        inconclusive += ['%s: %s' % (r.unit, i) for i in r.inconclusive]
        failures += [f for f in r.failures if prop in f['props']]
        # failed obligations that no label attributes to a property leave every property that uses the
        # unit undecided (exit 2) - unless a labelled clause of this property failed as well
        for f in r.failures:
            if not f['props']:
                inconclusive.append('%s: unattributed proof obligation failed (undecided, not a violation): %s' % (r.unit, f['obligation']))
    known = load_known()
    known_names = {k['obligation']: k for k in known.get('findings', []) if k.get('property') == prop}
    new_fail = [f for f in failures if f['obligation'] not in known_names]
    listed = [f for f in failures if f['obligation'] in known_names]
    wall = time.time() - t0
    code = 0
    replay_path = None
    witness = None
    if inconclusive:
        code = 2
    if new_fail:
        code = 1
        witness = witness_search(prop, new_fail, tier)
        outdir = os.path.join(VERIF, 'out', 'violations')
        os.makedirs(outdir, exist_ok=True)
        replay_path = os.path.join(outdir, '%s.json' % prop)
        json.dump({'property': prop, 'tier': tier, 'seed': seed,
                   'failed_obligations': [{k: f[k] for k in ('obligation', 'unit', 'item', 'tag', 'kind', 'clause', 'site', 'verifier_output')} for f in new_fail],
                   'witness': witness,
                   'how_to_replay': './bin/check %s --replay %s' % (prop, replay_path)},
                  open(replay_path, 'w'), indent=1)
    if not a.no_evidence:
        write_evidence(prop, pinfo, results, tier, seed, wall, failures, new_fail, listed, inconclusive, extra, witness)
    for f in listed:
        print("KNOWN-FINDING: property=%s %s (%s)" % (prop, f['obligation'], known_names[f['obligation']].get('what', '')))
    for i in inconclusive:
        print("INCONCLUSIVE: %s" % i)
    if code == 1:
        for f in new_fail:
            print("failed obligation: %s  -- %s" % (f['obligation'], f['kind']))
        tail = ''
        if not (witness and witness.get('input')):
            tail = ' no-failing-input-found'
        else:
            print("failing input (replayed on the real code): %s" % json.dumps(witness.get('input'))[:400])
        print("VIOLATION property=%s replay=%s%s" % (prop, replay_path, tail))
        return 1
    if code == 2:
        print("property %s: INCONCLUSIVE on this tree (no violation reported)" % prop)
        return 2
    nobl = sum(1 for r in results for it in r.items if it['mode'] == 'proved')
    print("property %s: all obligations discharged (%d functions under contract in %s, %.1fs)" % (
        prop, nobl, ','.join(pinfo['units']), wall))
    return 0


def run_extra(hook):
    p = os.path.join(VERIF, 'tool', hook)
    if not os.path.exists(p):
        return {'status': 'missing'}
    try:
        pr = subprocess.run([sys.executable, p], capture_output=True, text=True, timeout=1500)
        last = pr.stdout.strip().split('\n')[-1] if pr.stdout.strip() else '{}'
        try:
            return json.loads(last)
        except Exception:
            return {'status': 'error', 'rc': pr.returncode, 'tail': pr.stdout[-500:] + pr.stderr[-500:]}
    except subprocess.TimeoutExpired:
        return {'status': 'timeout'}


def write_evidence(prop, pinfo, results, tier, seed, wall, failures, new_fail, listed, inconclusive, extra, witness):
    funcs = []
    clauses = []
    assumptions = list(pinfo.get('assumptions', []))
    trusted = ["Verus 0.2026.09.13 + bundled z3", "vstd specifications of Vec/Option/Result/HashMap/BTreeMap/iterators",
               "the extractor (tool/rsscan.py, tool/assemble.py): item location, drop rules, rewrites listed below"]
    n_queries = 0
    n_ok = 0
    drop_log = {}
    scans = {}
    canaries = {}
    seeds = {}
    cmds = []
    failed_names = set(f['obligation'] for f in failures)
    for r in results:
        cmds.append(r.cmd)
        scans[r.unit] = r.assumption_scan
        canaries[r.unit] = {'functions': len(r.canary), 'failed_as_required': sum(1 for v in r.canary.values() if v),
                            'exempt': [k for k, v in r.canary.items() if not v]}
        seeds[r.unit] = r.seeds
        drop_log[r.unit] = {
            'attributes_dropped': len(r.log.get('dropped_attributes', [])),
            'derive_replacements': r.log.get('derive_replacements', []),
            'rewrites': r.log.get('rewrites', []),
            'rewrites_not_applicable': r.log.get('rewrites_not_applicable', []),
            'loops_not_present': r.log.get('loops_not_present', []),
            'solver_budget_retries': r.log.get('solver_budget_retries', []),
            'doc_comments_flattened': r.log.get('doc_comments_flattened', 0),
            'hand_written_template_lines': r.template_lines,
        }
        for it in r.items:
            if it['mode'] in ('proved', 'assumed'):
                owns = prop in it.get('props', []) or any(v['item'] == it['item'] and prop in v['props'] for v in r.labels.values())
                row = {'unit': r.unit, 'function': it['item'], 'file': it['file'], 'lines': it['lines'], 'mode': it['mode'],
                       'owned_by_this_property': owns, 'rewritten_lines': it.get('rewritten_lines', 0)}
                if it['mode'] == 'proved':
                    row.update({'verified': it.get('verified'), 'smt_ms': round(it.get('smt_us', 0) / 1000.0, 1), 'rlimit': it.get('rlimit')})
                    if it.get('parts'):
                        row['verified_by_cases'] = '%d verifier processes, one per group of match arms (every arm real in exactly one)' % it['parts']
                    if owns:
                        n_queries += 1
                        if it.get('verified'):
                            n_ok += 1
                else:
                    assumptions.append('assumed contract (external_body, signature from repo): %s::%s' % (r.unit, it['item']))
                funcs.append(row)
        for tag, v in sorted(r.labels.items()):
            if prop in v['props']:
                st = 'discharged'
                for f in failures:
                    if f.get('tag') == tag:
                        st = 'FAILED'
                clauses.append({'unit': r.unit, 'clause': tag, 'function': v['item'], 'kind': v['kind'], 'status': st})
        for dr in r.log.get('derive_replacements', []):
            s = 'derive(%s) on %s replaced by an assumed specification: %s' % (dr['derive'], dr['type'], dr['assumed'])
            if s not in assumptions:
                assumptions.append(s)
    n_clause = len(clauses)
    n_clause_ok = sum(1 for c in clauses if c['status'] == 'discharged')
    obligations = n_queries + n_clause
    discharged = n_ok + n_clause_ok
    samples = []
    for r in results:
        asm = getattr(r, 'asm', None)
        if not asm:
            continue
        cur_tag = None
        buf = []
        for l, m in zip(asm.lines, asm.meta):
            if m.get('tag') and prop in (m.get('props') or []) and not m['tag'].split('.')[-1].startswith('aux'):
                if m['tag'] != cur_tag:
                    cur_tag = m['tag']
                    buf = []
                buf.append(l.strip())
                if '//#' in l and len(samples) < 8:
                    samples.append({'function': m['item'], 'obligation': cur_tag, 'clause': ' '.join(buf)})
            else:
                cur_tag = None
    if not samples:
        samples = [{'note': 'no clause text available (unit did not assemble)'}]
    ev = {
        'property_id': prop, 'tier': tier, 'seed': seed, 'level': 'proof',
        'coverage': {
            'obligations': obligations, 'discharged': discharged,
            'obligation_breakdown': {'function_level_verifier_queries': n_queries, 'queries_verified': n_ok,
                                     'named_contract_clauses': n_clause, 'clauses_discharged': n_clause_ok},
            'checker_cmd': ' ; '.join(cmds) or 'verus (unit did not assemble)',
            'trusted_base': trusted,
            'samples': samples,
            'functions': funcs,
            'clauses': clauses,
            'statement_clauses': pinfo.get('statement_clauses', []),
            'extraction': drop_log,
            'assumption_scan': scans,
            'vacuity_canaries': canaries,
            'seeds': seeds,
            'thorough_extra': extra,
            'failed_obligations': sorted(failed_names),
            'inconclusive': inconclusive,
            'solver_time_ms': round(sum(f.get('smt_ms', 0) or 0 for f in funcs), 1),
            'back_end': 'Verus -> z3 (bundled)',
        },
        'assumptions': assumptions,
        'wall_s': round(wall, 2),
        'violations': len(new_fail),
    }
    if witness:
        ev['coverage']['witness'] = witness
    os.makedirs(os.path.join(VERIF, 'evidence'), exist_ok=True)
    json.dump(ev, open(os.path.join(VERIF, 'evidence', '%s.json' % prop), 'w'), indent=1)


def replay(prop, path, tier, seed):
    data = json.load(open(path))
    names = set(f['obligation'] for f in data.get('failed_obligations', []))
    w = data.get('witness') or {}
    rc = 0
    if w.get('input'):
        drv = os.path.join(VERIF, 'replay', 'run_witness.py')
        p = subprocess.run([sys.executable, drv, '--replay', json.dumps(w)], capture_output=True, text=True)
        print(p.stdout.strip())
        if p.returncode == 1:
            rc = 1
    units = sorted(set(n.split('::')[0] for n in names)) or INDEX['properties'][prop]['units']
    still = []
    for u in units:
        r = runner.run_unit(u, tier='quick', seed=seed)
        for i in r.inconclusive:
            print("INCONCLUSIVE: %s: %s" % (u, i))
        for f in r.failures:
            if f['obligation'] in names:
                still.append(f['obligation'])
    for s in still:
        print("still failing: %s" % s)
    if still or rc == 1:
        print("VIOLATION property=%s replay=%s%s" % (prop, path, '' if w.get('input') else ' no-failing-input-found'))
        return 1
    print("replay: the recorded obligations are discharged on this tree")
    return 0


if __name__ == '__main__':
    sys.exit(main())
