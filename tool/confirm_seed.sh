#!/bin/sh
# developer helper: tool/confirm_seed.sh <deliver-dir> <out-json>
# confirms a seeded change independently: applies it in a scratch worktree, builds, runs the
# pinned test suite, runs every demo .sy with the unchanged and the changed compiler.
set -u
D="$1"; OUT="$2"
WT=$(mktemp -d /tmp/confirm-XXXXXX); rmdir "$WT"
git -C /repo worktree add -q --detach "$WT" HEAD || exit 3
export CARGO_TARGET_DIR="$WT/target" CARGO_NET_OFFLINE=true
cd "$WT"
cargo build --offline -q -p sylt 2>/dev/null
mkdir -p "$WT/res"
for f in "$D"/*.sy; do b=$(basename "$f"); cp "$D"/*.sy "$WT/res/" ; done
for f in "$D"/*.sy; do b=$(basename "$f"); ( cd "$WT/res" && timeout 20 ../target/debug/sylt -o - "$b" > "$WT/res/$b.base.out" 2>"$WT/res/$b.base.err"; echo $? > "$WT/res/$b.base.rc" ); done
git apply "$D/patch.diff" || { echo '{"applies": false}' > "$OUT"; cd /; git -C /repo worktree remove --force "$WT"; exit 0; }
cargo test --workspace --no-fail-fast --offline > "$WT/res/test.log" 2>&1
PASSED=$(grep -E "^test result" "$WT/res/test.log" | sed -E 's/.* ([0-9]+) passed.*/\1/' | paste -sd+ | bc)
FAILED=$(grep -E "^test .* FAILED$" "$WT/res/test.log" | sed -E 's/^test (.*) \.\.\. FAILED/\1/' | paste -sd, )
cargo build --offline -q -p sylt 2>/dev/null
DIFFS=""
for f in "$D"/*.sy; do b=$(basename "$f"); ( cd "$WT/res" && timeout 20 ../target/debug/sylt -o - "$b" > "$WT/res/$b.mut.out" 2>"$WT/res/$b.mut.err"; echo $? > "$WT/res/$b.mut.rc" )
  if ! cmp -s "$WT/res/$b.base.out" "$WT/res/$b.mut.out" || ! cmp -s "$WT/res/$b.base.rc" "$WT/res/$b.mut.rc"; then DIFFS="$DIFFS $b(rc $(cat $WT/res/$b.base.rc)->$(cat $WT/res/$b.mut.rc))"; fi
done
printf '{"applies": true, "tests_passed": %s, "tests_failed": "%s", "demos_that_differ": "%s"}\n' "${PASSED:-0}" "$FAILED" "$DIFFS" > "$OUT"
cd /
git -C /repo worktree remove --force "$WT"
