#!/usr/bin/env python3
"""developer helper: assemble a unit, run verus, print diagnostics in human form"""
import sys, os, json, subprocess
sys.path.insert(0, os.path.dirname(os.path.abspath(__file__)))
import runner
unit = sys.argv[1]
keep = '/tmp/dbg-' + unit
r = runner.run_unit(unit, keep=keep, seed=int(os.environ.get('VERIF_SEED', '0')))
print('wall', round(r.wall_s, 1), 'verified', getattr(r, 'verified_count', None), 'errors', getattr(r, 'error_count', None))
for i in r.inconclusive: print('INCONCLUSIVE', i)
for f in r.failures:
    print('FAIL', f['obligation'], f['props'])
    if '-v' in sys.argv: print(f['verifier_output'])
print('retries', r.log.get('solver_budget_retries'))
if r.log.get('rewrites_not_applicable') or r.log.get('loops_not_present'): print('NOT APPLIED', r.log.get('rewrites_not_applicable'), r.log.get('loops_not_present'))
print('canary', {k: v for k, v in r.canary.items() if not v})
print('kept in', keep)
import shutil
if getattr(r, 'work', None): shutil.rmtree(r.work, ignore_errors=True)
