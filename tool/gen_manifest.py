#!/usr/bin/env python3
"""writes MANIFEST.json from units/index.json + tool/manifest_static.json (kept valid at all times)"""
import json, os
V = os.path.dirname(os.path.dirname(os.path.abspath(__file__)))
idx = json.load(open(os.path.join(V, 'units', 'index.json')))
st = json.load(open(os.path.join(V, 'tool', 'manifest_static.json')))
checks = []
for pid in sorted(idx['properties']):
    p = idx['properties'][pid]
    m = st['checks'][pid]
    checks.append({
        'property_id': pid,
        'quick_cmd': './bin/check %s --tier quick' % pid,
        'thorough_cmd': './bin/check %s --tier thorough' % pid,
        'evidence_file': 'evidence/%s.json' % pid,
        'replay_cmd_template': './bin/check %s --replay {path}' % pid,
        'engine': 'verus-contracts',
        'level_claimed': {'category': 'proof', 'text': m['level_text'], 'design_ref': m['design_ref']},
        'level_note': m['level_note'],
        'technique': m['technique'],
    })
na = [{'property_id': k, 'reason': v} for k, v in sorted(st['not_applicable'].items()) if k not in idx['properties']]
man = {
    'version': 1,
    'setup_cmd': st['setup_cmd'],
    'hooks': st['hooks'],
    'engines': [{'name': 'verus-contracts', 'path': 'tool/', 'serves_properties': sorted(idx['properties']),
                 'kind_free_text': 'contract-based deductive verification: Verus 0.2026.09.13 on function text extracted from /repo on every run, contracts spliced as ghost code (units/*/unit.rs.tpl)'}],
    'checks': checks,
    'notes': st['notes'],
    'not_applicable': na,
}
json.dump(man, open(os.path.join(V, 'MANIFEST.json'), 'w'), indent=1)
print('MANIFEST.json written:', len(checks), 'checks,', len(na), 'not applicable')
