#!/usr/bin/env python3
"""tool/import_seed.py <deliver-dir> <seed-id> <property> <confirm.json> "<needs>" "<summary>"
copies a confirmed seeded change into /verif/seeded/<seed-id>/ with meta.json"""
import json, os, shutil, sys
d, sid, prop, conf, needs, summary = sys.argv[1:7]
dst = os.path.join(os.path.dirname(os.path.dirname(os.path.abspath(__file__))), 'seeded', sid)
os.makedirs(dst, exist_ok=True)
for f in os.listdir(d):
    if f.endswith('.sy') or f in ('patch.diff', 'README.md') or f.endswith('.rs') or f.endswith('.txt') or f.endswith('.lua'):
        shutil.copy(os.path.join(d, f), dst)
c = json.load(open(conf))
meta = {'id': sid, 'property': prop, 'summary': summary, 'needs_to_manifest': needs,
        'origin': 'independent sub-agent given only the property record and a scratch worktree',
        'confirmed_by': 'tool/confirm_seed.sh in a fresh scratch worktree of /repo HEAD: patch applies; cargo test --workspace --no-fail-fast --offline; every demo .sy compiled with the unchanged and the changed compiler (sylt -o - FILE)',
        'confirmation': c, 'detected_by': None}
json.dump(meta, open(os.path.join(dst, 'meta.json'), 'w'), indent=1)
print('imported', sid)
