#!/usr/bin/env python3
"""Thorough-tier extra for C14 (BOUNDED, never counted as proved): Context::skip / prev of the REAL sylt-parser
crate against an independent model of "move over n tokens that are not comments, then over the comments
(and, while newlines are skipped, the newlines) that follow", for every token sequence of length <= 4 over
{comment, newline, two other tokens}, every start position <= 5, n <= 2, both newline modes.
Context::skip is an assumed stub of the Verus units (its `curr += 1` cannot be shown free of overflow from
the function alone), so this bounded check is the only thing that looks at its body.
Runs in a scratch copy of /repo. Prints one JSON line; a timeout or tool failure is not a violation."""
import json, os, shutil, subprocess, sys, tempfile, time
REPO = os.environ.get('SYLT_REPO', '/repo')
HARNESS = '''
#[cfg(kani)]
mod verif_kani_skip {
    use super::*;
    const L: usize = 4;
    fn tok(k: u8) -> Token { match k { 0 => T::Comment(String::new()), 1 => T::Newline, 2 => T::Plus, _ => T::Comma } }
    fn at(ks: &[u8; L], i: usize) -> u8 { if i < L { ks[i] } else { 9 } }
    // the model: count n tokens that are not comments, then pass comments (and newlines when they are skipped)
    fn model(ks: &[u8; L], curr0: usize, n: usize, skipnl: bool) -> usize {
        let mut c = curr0; let mut seen = 0;
        while seen < n { if at(ks, c) != 0 { seen += 1; } c += 1; }
        while at(ks, c) == 0 || (at(ks, c) == 1 && skipnl) { c += 1; }
        c
    }
    #[kani::proof]
    #[kani::unwind(14)]
    fn skip_moves_over_n_tokens_that_are_not_comments() {
        let ks: [u8; L] = kani::any();
        kani::assume(ks[0] < 4 && ks[1] < 4 && ks[2] < 4 && ks[3] < 4);
        let tokens = [tok(ks[0]), tok(ks[1]), tok(ks[2]), tok(ks[3])];
        let spans: [Span; 0] = [];
        let file = FileOrLib::Lib("");
        let root = std::path::Path::new("");
        let mut ctx = Context::new(&tokens, &spans, &file, 0, root);
        let curr0: usize = kani::any(); kani::assume(curr0 <= 5);
        let n: usize = kani::any(); kani::assume(n <= 2);
        let skipnl: bool = kani::any();
        ctx.curr = curr0;
        ctx.skip_newlines = skipnl;
        let r = ctx.skip(n);
        assert!(r.curr == model(&ks, curr0, n, skipnl));
        assert!(r.skip_newlines == skipnl);
        // prev: one token back (not past the beginning), then further back over comments. (When every
        // token before the cursor is a comment, prev() never returns - observation O7; the parser calls
        // it only after it has consumed a token that is not a comment, which the first token stands for.)
        if ks[0] != 0 {
            let b = ctx.prev();
            let mut c = if curr0 == 0 { 0 } else { curr0 - 1 };
            while at(&ks, c) == 0 { c -= 1; }
            assert!(b.curr == c);
        }
    }
}
'''

def main():
    t0 = time.time()
    d = tempfile.mkdtemp(prefix='kani-skip-')
    try:
        subprocess.run(['rsync', '-a', '--exclude', 'target', '--exclude', '.git', REPO + '/', d + '/'], check=True)
        with open(os.path.join(d, 'sylt-parser/src/parser.rs'), 'a') as f:
            f.write(HARNESS)
        env = dict(os.environ, CARGO_NET_OFFLINE='true', CARGO_TARGET_DIR=os.path.join(d, 'target'))
        env.pop('RUSTUP_TOOLCHAIN', None)
        try:
            p = subprocess.run(['cargo', 'kani', '-p', 'sylt-parser', '--harness', 'skip_moves_over_n_tokens_that_are_not_comments'],
                               cwd=d, env=env, capture_output=True, text=True, timeout=int(os.environ.get('KANI_SKIP_TIMEOUT', '1200')))
            out = p.stdout + p.stderr
            ok = 'VERIFICATION:- SUCCESSFUL' in out
            failed = 'VERIFICATION:- FAILED' in out
            status = 'discharged' if ok else ('FAILED' if failed else 'tool-error')
            res = {'status': status, 'harness': 'skip_moves_over_n_tokens_that_are_not_comments', 'bounded': True,
                   'domain': 'token sequences of length 4 over 4 token kinds, start <= 5, n <= 2, both newline modes; prev() only with a first token that is not a comment; unwind 14',
                   'back_end': 'Kani 0.68 / CBMC', 'wall_s': round(time.time() - t0, 1)}
            if not ok:
                res['tail'] = out[-900:]
        except subprocess.TimeoutExpired:
            res = {'status': 'timeout', 'wall_s': round(time.time() - t0, 1)}
    finally:
        shutil.rmtree(d, ignore_errors=True)
    print(json.dumps(res))

if __name__ == '__main__':
    main()
