#!/usr/bin/env python3
"""Thorough-tier extra for C13: discharges, on the REAL sylt-parser crate, the two facts the Verus unit
assumes about derived code on `Prec`: derive(PartialOrd) orders by declaration position and
derive(Next) is the saturating successor. Loop-free harness over the full 9 x 9 domain => a complete
proof by CBMC, not a bounded one. Runs in a scratch copy of /repo (never /repo itself).
Prints one JSON line; a timeout or tool failure leaves the assumptions listed and is not a violation."""
import json, os, re, shutil, subprocess, sys, tempfile, time
HERE = os.path.dirname(os.path.abspath(__file__))
sys.path.insert(0, HERE)
from rsscan import Source, strip_attributes, code_mask, match_close
REPO = os.environ.get('SYLT_REPO', '/repo')

def main():
    t0 = time.time()
    src = Source('parser.rs', open(os.path.join(REPO, 'sylt-parser/src/parser.rs')).read())
    a, s, e = src.find_item('enum', 'Prec')
    body, _ = strip_attributes(src.text[s:e])
    m = code_mask(body)
    br = m.index('{')
    variants = [v.strip() for v in m[br + 1:match_close(m, br)].split(',') if v.strip()]
    n = len(variants)
    arms_idx = ' '.join('Prec::%s => %d,' % (v, k) for k, v in enumerate(variants))
    arms_from = ' '.join('%d => Prec::%s,' % (k, v) for k, v in enumerate(variants[:-1])) + ' _ => Prec::%s,' % variants[-1]
    harness = '''
#[cfg(kani)]
mod verif_kani_prec {
    use super::*;
    fn idx(p: Prec) -> u8 { match p { %s } }
    fn from(i: u8) -> Prec { match i { %s } }
    #[kani::proof]
    fn prec_derives_follow_declaration_order() {
        let i: u8 = kani::any(); let j: u8 = kani::any();
        kani::assume(i < %d); kani::assume(j < %d);
        let a = from(i); let b = from(j);
        assert!(idx(a) == i && idx(b) == j);
        assert!((a <= b) == (i <= j));
        assert!((a < b) == (i < j));
        assert!((a == b) == (i == j));
        let nx = a.next();
        assert!(idx(nx) == if i + 1 < %d { i + 1 } else { %d });
    }
}
''' % (arms_idx, arms_from, n, n, n, n - 1)
    d = tempfile.mkdtemp(prefix='kani-prec-')
    try:
        subprocess.run(['rsync', '-a', '--exclude', 'target', '--exclude', '.git', REPO + '/', d + '/'], check=True)
        with open(os.path.join(d, 'sylt-parser/src/parser.rs'), 'a') as f:
            f.write(harness)
        env = dict(os.environ, CARGO_NET_OFFLINE='true', CARGO_TARGET_DIR=os.path.join(d, 'target'))
        env.pop('RUSTUP_TOOLCHAIN', None)
        try:
            p = subprocess.run(['cargo', 'kani', '-p', 'sylt-parser', '--harness', 'prec_derives_follow_declaration_order'],
                               cwd=d, env=env, capture_output=True, text=True, timeout=900)
            out = p.stdout + p.stderr
            ok = 'VERIFICATION:- SUCCESSFUL' in out
            failed = 'VERIFICATION:- FAILED' in out
            status = 'discharged' if ok else ('FAILED' if failed else 'tool-error')
            res = {'status': status, 'harness': 'prec_derives_follow_declaration_order', 'domain': '%d x %d Prec values, loop-free (complete)' % (n, n),
                   'back_end': 'Kani 0.68 / CBMC', 'wall_s': round(time.time() - t0, 1)}
            if not ok:
                res['tail'] = out[-600:]
        except subprocess.TimeoutExpired:
            res = {'status': 'timeout', 'wall_s': round(time.time() - t0, 1)}
    finally:
        shutil.rmtree(d, ignore_errors=True)
    print(json.dumps(res))

if __name__ == '__main__':
    main()
