#!/bin/sh
# developer helper: tool/mutest.sh <prop> <file-relative-to-repo> <sed-expression>
# applies a sed edit to a scratch copy of /repo and runs the check against the copy (no evidence written)
set -e
P="$1"; F="$2"; S="$3"
D=$(mktemp -d /tmp/mutest-XXXXXX)
rsync -a --exclude target --exclude .git /repo/ "$D/"
sed -i "$S" "$D/$F"
if diff -q "/repo/$F" "$D/$F" >/dev/null; then echo "MUTATION DID NOT CHANGE THE FILE"; rm -rf "$D"; exit 3; fi
set +e
SYLT_REPO="$D" "$(dirname "$0")/../bin/check" "$P" --no-evidence 2>&1 | grep -E "VIOLATION|failed obligation|INCONCLUSIVE|discharged|KNOWN" | head -12
rm -rf "$D"
