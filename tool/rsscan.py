"""Lexical scanner for Rust source text.

Gives a *code mask* (same length as the source, with the inside of comments, string literals and
character literals blanked out) and item location on top of it.  It does not parse Rust; it only
needs to find `fn NAME`, `impl HEADER`, `enum/struct/type/trait NAME`, `macro_rules! NAME`,
matching braces, loop keywords and attribute brackets reliably in the files of /repo.

Every failure to find an item exactly once raises LostAnchor, which the runner turns into an
*inconclusive* verdict (exit 2), never into a violation.
"""
import re


class LostAnchor(Exception):
    pass


def code_mask(src):
    """Return a string of len(src): code characters kept, everything inside comments / string
    literals / char literals replaced by a space (newlines kept). Delimiters of strings are
    replaced too, so that braces or keywords inside them can never be seen."""
    out = list(src)
    n = len(src)
    i = 0

    def blank(a, b):
        for k in range(a, b):
            if out[k] != '\n':
                out[k] = ' '

    while i < n:
        c = src[i]
        if c == '/' and i + 1 < n and src[i + 1] == '/':
            j = src.find('\n', i)
            if j == -1:
                j = n
            blank(i, j)
            i = j
        elif c == '/' and i + 1 < n and src[i + 1] == '*':
            depth = 1
            j = i + 2
            while j < n and depth > 0:
                if src.startswith('/*', j):
                    depth += 1
                    j += 2
                elif src.startswith('*/', j):
                    depth -= 1
                    j += 2
                else:
                    j += 1
            blank(i, j)
            i = j
        elif c == '"' or (c in 'rb' and re.match(r'(?:br|rb|r|b)#*"', src[i:i + 12])
                          and (i == 0 or not (src[i - 1].isalnum() or src[i - 1] == '_'))):
            m = re.match(r'(br|rb|r|b)?(#*)"', src[i:i + 12])
            prefix = m.group(1) or ''
            hashes = m.group(2)
            j = i + len(m.group(0))
            if 'r' in prefix:
                end = src.find('"' + hashes, j)
                if end == -1:
                    raise LostAnchor("unterminated raw string")
                j = end + 1 + len(hashes)
            else:
                while j < n and src[j] != '"':
                    if src[j] == '\\':
                        j += 1
                    j += 1
                j += 1
            blank(i, j)
            i = j
        elif c == "'":
            m = re.match(r"'(\\[^']*|[^\\'])'", src[i:i + 16])
            if m:
                blank(i, i + len(m.group(0)))
                i += len(m.group(0))
            else:
                i += 1  # lifetime
        else:
            i += 1
    return ''.join(out)


def match_close(mask, i, open_ch='{', close_ch='}'):
    """mask[i] == open_ch; return index of the matching close."""
    assert mask[i] == open_ch, (mask[i], open_ch)
    depth = 0
    n = len(mask)
    j = i
    while j < n:
        ch = mask[j]
        if ch == open_ch:
            depth += 1
        elif ch == close_ch:
            depth -= 1
            if depth == 0:
                return j
        j += 1
    raise LostAnchor("unbalanced %s at %d" % (open_ch, i))


def brace_depths(mask, lo=0, hi=None):
    """depth of `{}` nesting at every position in [lo, hi)."""
    if hi is None:
        hi = len(mask)
    d = 0
    out = {}
    for k in range(lo, hi):
        ch = mask[k]
        if ch == '}':
            d -= 1
        out[k] = d
        if ch == '{':
            d += 1
    return out


class Source:
    def __init__(self, path, text):
        self.path = path
        self.text = text
        self.mask = code_mask(text)
        self._depth = None

    def depth_at(self, pos):
        if self._depth is None:
            d = 0
            arr = [0] * (len(self.mask) + 1)
            for k, ch in enumerate(self.mask):
                if ch == '}':
                    d -= 1
                arr[k] = d
                if ch == '{':
                    d += 1
            arr[len(self.mask)] = d
            self._depth = arr
        return self._depth[pos]

    def line_of(self, pos):
        return self.text.count('\n', 0, pos) + 1

    # ---- scopes -------------------------------------------------------------------------
    def impl_blocks(self, header):
        """All top-level `impl ...` blocks whose header (text between `impl` and `{`, whitespace
        collapsed) equals `header` (given without the leading `impl`). Returns list of
        (body_start, body_end) = positions just after `{` and at the closing `}`."""
        want = ' '.join(header.split())
        res = []
        for m in re.finditer(r'(?m)^[ \t]*(?:unsafe\s+)?impl\b', self.mask):
            if self.depth_at(m.start()) != 0 and not self._in_plain_mod(m.start()):
                continue
            br = self.mask.find('{', m.end())
            if br == -1:
                continue
            hdr = ' '.join(self.text[m.end():br].split())
            if hdr == want:
                res.append((br + 1, match_close(self.mask, br)))
        return res

    def _in_plain_mod(self, pos):
        return False

    def find_fn(self, name, scopes=None):
        """Locate `fn name` directly inside one of `scopes` (list of (lo, hi)); default: file top
        level. Returns (start, sig_end_brace, body_close) where start is the beginning of the line
        holding the `fn` keyword (visibility and qualifiers included)."""
        if scopes is None:
            scopes = [(0, len(self.mask))]
            base = 0
        hits = []
        for (lo, hi) in scopes:
            base = self.depth_at(lo)
            for m in re.finditer(r'\bfn\s+' + re.escape(name) + r'\b', self.mask[lo:hi]):
                p = lo + m.start()
                if self.depth_at(p) == base:
                    hits.append(p)
        if len(hits) != 1:
            raise LostAnchor("fn %s in %s: %d matches" % (name, self.path, len(hits)))
        p = hits[0]
        start = self.text.rfind('\n', 0, p) + 1
        # the qualifiers between line start and `fn` must be only pub/const/async/unsafe/extern
        quals = self.mask[start:p].strip()
        if quals and not re.fullmatch(r'(pub(\s*\([^)]*\))?|const|unsafe|async|\s)+', quals):
            raise LostAnchor("fn %s: unexpected text before `fn`: %r" % (name, quals))
        br = self._sig_brace(p)
        return start, br, match_close(self.mask, br)

    def _sig_brace(self, p):
        """position of the `{` opening the body of the fn whose `fn` keyword is at p."""
        depth_par = 0
        k = p
        n = len(self.mask)
        while k < n:
            ch = self.mask[k]
            if ch in '([':
                depth_par += 1
            elif ch in ')]':
                depth_par -= 1
            elif ch == '{' and depth_par == 0:
                return k
            elif ch == ';' and depth_par == 0:
                raise LostAnchor("fn at %d has no body" % p)
            k += 1
        raise LostAnchor("no body brace")

    def find_item(self, kind, name):
        """enum / struct / type / trait / const / static at brace depth 0."""
        pat = re.compile(r'(?m)^[ \t]*(?:pub(?:\s*\([^)]*\))?\s+)?' + kind + r'\s+' + re.escape(name) + r'\b')
        hits = [m for m in pat.finditer(self.mask) if self.depth_at(m.start()) == 0]
        if len(hits) != 1:
            raise LostAnchor("%s %s in %s: %d matches" % (kind, name, self.path, len(hits)))
        m = hits[0]
        start = m.start()
        semi = self.mask.find(';', m.end())
        br = self.mask.find('{', m.end())
        if semi != -1 and (br == -1 or semi < br):
            end = semi + 1
        else:
            end = match_close(self.mask, br) + 1
        # derive attributes directly above the item
        attrs_start = start
        while True:
            prev_end = attrs_start - 1
            if prev_end <= 0:
                break
            prev_start = self.text.rfind('\n', 0, prev_end) + 1
            line = self.text[prev_start:prev_end].strip()
            if line.startswith('#[') or line.startswith('///') or line.startswith('//'):
                attrs_start = prev_start
            else:
                break
        return attrs_start, start, end

    def find_macro(self, name):
        pat = re.compile(r'(?m)^[ \t]*macro_rules!\s+' + re.escape(name) + r'\b')
        hits = list(pat.finditer(self.mask))
        if len(hits) != 1:
            raise LostAnchor("macro %s in %s: %d matches" % (name, self.path, len(hits)))
        m = hits[0]
        br = self.mask.find('{', m.end())
        return m.start(), match_close(self.mask, br) + 1


def strip_attributes(text, keep_derive=False):
    """Remove every `#[...]` / `#![...]` attribute in `text` (D-attr). Returns (new_text, removed)
    where removed is the list of attribute texts. `#[cfg...]` is refused: dropping it would change
    which code runs."""
    mask = code_mask(text)
    n = len(text)
    ranges = []
    removed = []
    i = 0
    while i < n:
        if mask[i] == '#' and re.match(r'#!?\[', mask[i:i + 3]):
            br = mask.find('[', i)
            end = match_close(mask, br, '[', ']')
            attr = text[i:end + 1]
            if re.match(r'#!?\[\s*cfg', attr):
                raise LostAnchor("conditional compilation inside an extracted item: %s" % attr)
            if not (keep_derive and re.match(r'#\[\s*derive', attr)):
                removed.append(' '.join(attr.split()))
                a, b = i, end + 1
                ls = text.rfind('\n', 0, a) + 1
                le = text.find('\n', b)
                if le == -1:
                    le = n
                if text[ls:a].strip() == '' and text[b:le].strip() == '':
                    a, b = ls, min(le + 1, n)
                ranges.append((a, b))
            i = end + 1
        else:
            i += 1
    out = []
    p = 0
    for a, b in ranges:
        out.append(text[p:a])
        p = b
    out.append(text[p:])
    return ''.join(out), removed


def doc_to_plain(text):
    """`///` and `//!` doc comments become ordinary comments (inside verus! a doc comment is an
    attribute and is not allowed in every position)."""
    lines = text.split('\n')
    for k, l in enumerate(lines):
        st = l.lstrip()
        if (st.startswith('///') and not st.startswith('////')) or st.startswith('//!'):
            ind = len(l) - len(st)
            lines[k] = l[:ind] + '// ' + st[3:]
    return '\n'.join(lines)


LOOP_RE = re.compile(r'\b(while|for|loop)\b')


def loop_positions(text, mask=None):
    """positions of loop keywords (while/for/loop) in code, in textual order. `for` inside
    `impl .. for ..` or `for<'a>` cannot occur in function bodies of this code base."""
    if mask is None:
        mask = code_mask(text)
    res = []
    for m in LOOP_RE.finditer(mask):
        # skip labels such as `'outer: loop` (still a loop) - fine; skip `.for`/field names
        if m.start() > 0 and mask[m.start() - 1] in '._':
            continue
        res.append((m.start(), m.group(1)))
    return res


def header_brace(mask, pos):
    """first `{` after pos at paren/bracket depth 0: the opening brace of a loop body."""
    d = 0
    k = pos
    while k < len(mask):
        ch = mask[k]
        if ch in '([':
            d += 1
        elif ch in ')]':
            d -= 1
        elif ch == '{' and d == 0:
            return k
        k += 1
    raise LostAnchor("loop without body")
