"""Runs Verus on assembled units, maps diagnostics to named obligations, produces verdicts."""
import json
import os
import re
import shutil
import subprocess
import sys
import tempfile
import time
from concurrent.futures import ThreadPoolExecutor

HERE = os.path.dirname(os.path.abspath(__file__))
VERIF = os.path.dirname(HERE)
sys.path.insert(0, HERE)
from rsscan import LostAnchor  # noqa: E402
from assemble import assemble, RepoFiles, TemplateError  # noqa: E402

REPO = os.environ.get('SYLT_REPO', '/repo')
VERUS = os.environ.get('VERUS', 'verus')
CACHE = os.path.join(VERIF, '.cache')

FAIL_RE = re.compile(r'(not satisfied|assertion failed|possible arithmetic|possible division by zero|'
                     r'possible bit shift|could not prove termination|decreases not satisfied|'
                     r'unable to prove|assertion may fail|may fail|cannot show|could not show|recommendation not met)', re.I)
RLIMIT_RE = re.compile(r'(resource limit|rlimit|timed out|time limit)', re.I)
ASSUMPTION_PATTERNS = ['external_body', 'assume_specification', 'assume(', 'admit(',
                       'exec_allows_no_decreases_clause', 'external_type_specification',
                       'external_fn_specification', 'uninterp spec fn', '#[verifier::external]']


class Inconclusive(Exception):
    pass


def expand_crate(crate):
    """real proc-macro / derive expansion of a crate of /repo (offline, own target dir)."""
    env = dict(os.environ)
    env['CARGO_NET_OFFLINE'] = 'true'
    env['CARGO_TARGET_DIR'] = os.path.join(CACHE, 'expand-target')
    env.pop('RUSTUP_TOOLCHAIN', None)
    p = subprocess.run(['cargo', '+nightly', 'rustc', '--offline', '-p', crate, '--lib', '--',
                        '-Zunpretty=expanded'], cwd=REPO, env=env, capture_output=True, text=True)
    if p.returncode != 0 or not p.stdout.strip():
        raise Inconclusive("macro expansion of %s failed: %s" % (crate, p.stderr[-800:]))
    return p.stdout


class Files(RepoFiles):
    def get(self, rel):
        if rel.startswith('expanded:') and rel not in self.virtual and rel not in self.cache:
            self.virtual[rel] = expand_crate(rel.split(':', 1)[1])
        return super().get(rel)


def run_verus(path, seed, rlimit=30, solver=None, threads=None, multiple_errors=20):
    cmd = [VERUS, path, '--edition', '2018', '--output-json', '--time-expanded', '--multiple-errors', str(multiple_errors),
           '--rlimit', str(rlimit), '--error-format=json', '--no-report-long-running',
           '--smt-option', 'smt.random_seed=%d' % seed]
    if solver == 'cvc5':
        cmd += ['-V', 'cvc5']
    if threads:
        cmd += ['--num-threads', str(threads)]
    t0 = time.time()
    p = subprocess.run(cmd, cwd=os.path.dirname(path), capture_output=True, text=True)
    dt = time.time() - t0
    try:
        js = json.loads(p.stdout[p.stdout.index('{'):]) if '{' in p.stdout else {}
    except Exception:
        js = {}
    diags = []
    raw = []
    for l in p.stderr.split('\n'):
        l = l.strip()
        if l.startswith('{'):
            try:
                diags.append(json.loads(l))
            except Exception:
                raw.append(l)
        elif l:
            raw.append(l)
    return {'cmd': ' '.join(cmd), 'rc': p.returncode, 'json': js, 'diags': diags, 'raw': raw, 'wall_s': dt}


def run_verus_robust(path, asm, unit, seed, rlimit=30, solver=None, threads=None, retries=None):
    """run_verus, and when the solver gave up on a query (resource limit) run the file again with four
    times the limit, then with another seed: a proof found under any limit or seed is a proof, and
    `gave up` must not be reported while a bigger budget decides. Every retry is recorded."""
    run = run_verus(path, seed, rlimit, solver, threads)
    f, te, rl = classify(asm, run, unit)
    # a verifier process that died without a verdict (killed under memory pressure, no JSON result) says
    # nothing about the code: run it again, alone, before giving up
    tries = 0
    while tries < 2 and not (run['json'].get('verification-results')) and not any(d.get('level') == 'error' for d in run['diags']):
        tries += 1
        time.sleep(5 * tries)
        run = run_verus(path, seed, rlimit, solver, threads)
        f, te, rl = classify(asm, run, unit)
        if retries is not None:
            retries.append({'file': os.path.basename(path), 'seed': seed, 'rlimit': rlimit, 'reason': 'no verdict from the verifier process (rc %s), run again' % run['rc']})
    if rl and not te:
        for (sd, lim) in ((seed, rlimit * 4), (seed + 7, rlimit * 4)):
            run2 = run_verus(path, sd, lim, solver, threads)
            f2, te2, rl2 = classify(asm, run2, unit)
            if retries is not None:
                retries.append({'file': os.path.basename(path), 'seed': sd, 'rlimit': lim,
                                'still_gave_up': bool(rl2), 'wall_s': round(run2['wall_s'], 1)})
            if not te2 and not rl2:
                return run2
            if not te2 and len(rl2) < len(rl):
                run, rl = run2, rl2
    return run


def slow_functions(run):
    """names of the functions whose query did not succeed in this run (for messages)"""
    out = []
    try:
        for m in run['json']['times-ms']['smt']['smt-run-module-times']:
            for f in m['function-breakdown']:
                if not f.get('success', True):
                    out.append(f['function'].split('::')[-1])
    except Exception:
        pass
    return out


def enclosing_fn(asm, line):
    """for hand-written template text: nearest preceding `fn NAME`."""
    for k in range(line - 1, -1, -1):
        m = re.search(r'\bfn\s+([A-Za-z_0-9]+)', asm.lines[k])
        if m and asm.meta[k]['origin'] == 'template':
            return m.group(1)
        if asm.meta[k]['origin'] != 'template':
            break
    return None


def classify(asm, run, unit):
    """-> (failures, tool_errors, rlimits)"""
    failures = []
    tool_errors = []
    rlimits = []
    for d in run['diags']:
        if d.get('level') != 'error':
            continue
        msg = d.get('message', '')
        if msg.startswith('aborting due to'):
            continue
        spans = d.get('spans', [])
        if RLIMIT_RE.search(msg):
            rlimits.append({'message': msg, 'lines': [s['line_start'] for s in spans]})
            continue
        if d.get('code') or not FAIL_RE.search(msg) or not spans:
            tool_errors.append({'message': msg, 'code': (d.get('code') or {}).get('code'),
                                'lines': [(s['line_start'], asm.lines[s['line_start'] - 1].strip()[:120] if 0 < s['line_start'] <= len(asm.lines) else '') for s in spans][:3],
                                'rendered': (d.get('rendered') or '')[:1500]})
            continue
        # choose the span that names the contract clause if there is one, else the primary span
        labelled_span = None
        primary = None
        for s in spans:
            ln = s['line_start']
            if not (0 < ln <= len(asm.meta)):
                continue
            if s.get('is_primary') and primary is None:
                primary = s
            mt = asm.meta[ln - 1]
            lab = (s.get('label') or '')
            if mt.get('tag') and (labelled_span is None or 'failed' in lab):
                # prefer the exact line among a multi-line span
                labelled_span = s
        use = labelled_span or primary or spans[0]
        ln = use['line_start']
        mt = asm.meta[ln - 1]
        # the function in which the obligation arose: the primary span's item
        where_mt = asm.meta[(primary or use)['line_start'] - 1]
        item = where_mt.get('item') or mt.get('item')
        if item is None:
            item = enclosing_fn(asm, (primary or use)['line_start']) or '<template>'
        tag = mt.get('tag')
        if tag:
            # a labelled clause: the label says which properties own it
            props = list(mt.get('props') or [])
        elif where_mt.get('origin') == 'code':
            # an unlabelled obligation that arises at an executable statement of the extracted code:
            # an index / unwrap / unreachable! / overflow site or an unlabelled callee precondition -
            # the panic-freedom claim (C07) when the function is listed for it
            props = ['C07'] if 'C07' in (where_mt.get('props') or []) else []
        else:
            # an unlabelled proof-internal obligation (auxiliary invariant, lemma precondition, ghost
            # assert): a failed proof without a named clause is UNDECIDED, not a violation
            props = []
        kind = re.sub(r'[^a-z]+', '-', msg.lower()).strip('-')[:60]
        text = asm.lines[ln - 1].strip()
        text = re.sub(r'\s*//#.*$', '', text)
        site = asm.lines[(primary or use)['line_start'] - 1].strip()
        name = '%s::%s::%s[%s]' % (unit, item, kind, tag if tag else 'at `%s`' % site[:70])
        failures.append({'obligation': name, 'unit': unit, 'item': item, 'tag': tag, 'props': props, 'kind': msg,
                         'clause': text, 'site': site, 'asm_line': ln,
                         'verifier_output': (d.get('rendered') or '')[:4000]})
    if not failures and not tool_errors and not rlimits and run['rc'] != 0:
        vr = run['json'].get('verification-results', {})
        if not vr.get('success', False):
            tool_errors.append({'message': 'verus exited %d without a diagnostic: %s' % (run['rc'], ' | '.join(run['raw'][-5:])[:800]),
                                'code': None, 'lines': [], 'rendered': ''})
    return failures, tool_errors, rlimits


def fn_rows(run):
    rows = {}
    try:
        mods = run['json']['times-ms']['smt']['smt-run-module-times']
    except Exception:
        return rows
    for m in mods:
        for f in m.get('function-breakdown', []):
            name = f['function']
            r = rows.setdefault(name, {'function': name, 'mode': f.get('mode:', f.get('mode')), 'smt_us': 0, 'rlimit': 0, 'success': True, 'queries': 0})
            r['smt_us'] += f.get('time-micros', 0)
            r['rlimit'] += f.get('rlimit', 0)
            r['queries'] += 1
            if not f.get('success', True):
                r['success'] = False
    return rows


def match_row(rows, item):
    """item is `name`, `Type::name` or `Type::name/inner`."""
    want = item.split('/')[0]
    hits = [r for n, r in rows.items() if n.split('::', 1)[-1] == want or n.endswith('::' + want)]
    if '/' in item:
        inner = item.split('/')[1]
        hits = [r for n, r in rows.items() if n.endswith('::' + inner)]
    return hits


def assumption_scan(text):
    out = {}
    for p in ASSUMPTION_PATTERNS:
        out[p] = text.count(p)
    return out


def check_no_cheating_in_proved(asm):
    """assume()/admit() inside a function under contract is refused."""
    bad = []
    for l, m in zip(asm.lines, asm.meta):
        if m['origin'] in ('spec', 'ghost') or str(m['origin']).startswith('loop'):
            if re.search(r'\b(assume|admit)\s*\(', l):
                bad.append(l.strip())
    return bad


class UnitResult:
    pass


def run_unit(unit, tier='quick', seed=0, keep=None, solver=None, rlimit=30):
    tpl = os.path.join(VERIF, 'units', unit, 'unit.rs.tpl')
    res = UnitResult()
    res.unit = unit
    res.inconclusive = []
    res.failures = []
    res.items = []
    res.rows = {}
    res.canary = {}
    res.wall_s = 0.0
    res.cmd = ''
    res.assumption_scan = {}
    res.log = {}
    res.labels = {}
    res.template_lines = 0
    res.seeds = []
    t0 = time.time()
    files = Files(REPO)
    try:
        asm = assemble(tpl, files, canary=False)
        can = assemble(tpl, files, canary=True)
    except LostAnchor as e:
        res.inconclusive.append('lost anchor: %s' % e)
        return res
    except Inconclusive as e:
        res.inconclusive.append(str(e))
        return res
    bad = check_no_cheating_in_proved(asm)
    if bad:
        raise TemplateError("assume/admit inside a contract of unit %s: %s" % (unit, bad[:3]))
    work = tempfile.mkdtemp(prefix='sylt-verif-%s-' % unit)
    try:
        stem = unit.lower().replace('-', '_')
        main_p = os.path.join(work, stem + '.rs')
        can_p = os.path.join(work, stem + '_canary.rs')
        open(main_p, 'w').write(asm.text())
        open(can_p, 'w').write(can.text())
        if keep:
            os.makedirs(keep, exist_ok=True)
            shutil.copy(main_p, keep)
            shutil.copy(can_p, keep)
        # proof by cases: one file per match-arm group of every split function
        part_files = []
        for (pitem, pn) in sorted(asm.split_info.items()):
            for pk in range(pn):
                pasm = assemble(tpl, Files(REPO) if False else files, canary=False, part=(pitem, pk))
                pp = os.path.join(work, '%s_part_%s_%d.rs' % (stem, re.sub(r'[^A-Za-z0-9]', '_', pitem), pk + 1))
                open(pp, 'w').write(pasm.text())
                if keep:
                    shutil.copy(pp, keep)
                part_files.append((pitem, pk, pasm, pp))
        with ThreadPoolExecutor(max_workers=14) as ex:
            retries = []
            f1 = ex.submit(run_verus_robust, main_p, asm, unit, seed, rlimit, solver, 4, retries)
            f2 = ex.submit(run_verus, can_p, seed, 10, solver, 4, 0)
            pfs = [ex.submit(run_verus_robust, pp, pasm, unit, seed, rlimit, solver, 2, retries) for (_, _, pasm, pp) in part_files]
            run = f1.result()
            crun = f2.result()
            pruns = [f.result() for f in pfs]
        res.cmd = re.sub(re.escape(work), '<scratch>', run['cmd'])
        failures, tool_errors, rlimits = classify(asm, run, unit)
        for q in rlimits:
            q['message'] = '%s [%s: %s]' % (q['message'], os.path.basename(main_p), ','.join(slow_functions(run)) or '?')
        part_rows = {}
        for (pitem, pk, pasm, pp), prun in zip(part_files, pruns):
            pf, pte, prl = classify(pasm, prun, unit)
            failures += pf
            tool_errors += pte
            for q in prl:
                q['message'] = '%s [%s: %s]' % (q['message'], os.path.basename(pp), ','.join(slow_functions(prun)) or '?')
            rlimits += prl
            for name, row in fn_rows(prun).items():
                if '__part' in name:
                    part_rows.setdefault(pitem, []).append(row)
        res.seeds.append({'seed': seed, 'solver': solver or 'z3', 'failed': sorted(f['obligation'] for f in failures),
                          'wall_s': round(run['wall_s'], 2)})
        if tool_errors:
            for te in tool_errors[:5]:
                res.inconclusive.append('verus rejected the unit (not a proof failure): %s %s' % (te['message'][:300], te['lines'][:2]))
        if rlimits:
            for rl in rlimits[:5]:
                res.inconclusive.append('resource limit: %s' % rl['message'][:200])
        # stability: a failing obligation is re-run with a second seed before it is believed
        if failures and not tool_errors:
            # (with the same budget escalation as the first run: a second run in which the solver gives up
            # on the query says nothing, it must not count as `passes with the other seed`)
            run2 = run_verus_robust(main_p, asm, unit, seed + 1, rlimit, solver, 8, retries)
            f2, te2, rl2 = classify(asm, run2, unit)
            gave_up2 = set(slow_functions(run2)) if rl2 else set()
            if part_files:
                with ThreadPoolExecutor(max_workers=14) as ex:
                    pr2 = [ex.submit(run_verus_robust, pp, pasm, unit, seed + 1, rlimit, solver, 2, retries) for (_, _, pasm, pp) in part_files]
                    for (pitem, pk, pasm, pp), fut in zip(part_files, pr2):
                        pf2, _, prl2 = classify(pasm, fut.result(), unit)
                        f2 += pf2
                        if prl2:
                            gave_up2 |= set(slow_functions(fut.result()))
            names2 = set(f['obligation'] for f in f2)
            res.seeds.append({'seed': seed + 1, 'solver': solver or 'z3', 'failed': sorted(names2), 'wall_s': round(run2['wall_s'], 2)})
            # an obligation of a function on which the second run gave up (even with the bigger budget) is
            # neither confirmed nor refuted by it: the first run's failure stands
            def fn_of(ob):
                return ob.split('::')[-2] if '::' in ob else ob
            stable = [f for f in failures if f['obligation'] in names2 or any(g and g in f['obligation'] for g in gave_up2)]
            unstable = [f for f in failures if f not in stable]
            for f in unstable:
                res.inconclusive.append('unstable proof (fails with seed %d, passes with %d): %s' % (seed, seed + 1, f['obligation']))
            failures = stable
        res.failures = failures
        res.rows = fn_rows(run)
        crows = fn_rows(crun)
        cfail, cte, crl = classify(can, crun, unit)
        # every proved function must have a query row, and its canary must fail
        for it in asm.items:
            if it['mode'] not in ('proved',):
                continue
            hits = match_row(res.rows, it['item'])
            if it['item'] in asm.split_info:
                hits = part_rows.get(it['item'], [])
                it['parts'] = asm.split_info[it['item']]
                if len(hits) < asm.split_info[it['item']] and not tool_errors:
                    res.inconclusive.append('split function %s: only %d of %d parts were verified' % (it['item'], len(hits), asm.split_info[it['item']]))
            it['smt_us'] = sum(h['smt_us'] for h in hits)
            it['rlimit'] = sum(h['rlimit'] for h in hits)
            it['verified'] = bool(hits) and all(h['success'] for h in hits)
            if not hits and not tool_errors:
                res.inconclusive.append('no verifier query for %s (function not seen by Verus)' % it['item'])
            chits = match_row(crows, it['item'] + '__canary')
            canary_failed = bool(chits) and not all(h['success'] for h in chits)
            res.canary[it['item']] = canary_failed
        if cte and not tool_errors:
            res.inconclusive.append('canary file rejected by verus: %s' % cte[0]['message'][:200])
        else:
            for it in asm.items:
                if it['mode'] == 'proved' and not res.canary.get(it['item'], False) and not tool_errors:
                    # functions marked nocanary are exempt (trait impl methods cannot be duplicated)
                    if not it.get('nocanary'):
                        res.inconclusive.append('vacuity canary verified for %s: `ensures false` is provable, the contract is vacuous' % it['item'])
        res.items = asm.items
        res.log = asm.log
        if retries:
            res.log['solver_budget_retries'] = retries
        res.labels = asm.labels
        res.template_lines = asm.template_lines
        res.assumption_scan = assumption_scan(asm.text())
        # the generated case-split files cut the arms that are not under examination; where the cut is an
        # `assume(false)` stub (inner_copy) it is counted here, so the scan does not hide it
        res.assumption_scan['assume(false) in generated case-split stubs (every arm is real in exactly one part)'] = sum(
            pasm.text().count('assume(false)') for (_, _, pasm, _) in part_files)
        res.verus_version = (run['json'].get('verus') or {}).get('version')
        res.verified_count = (run['json'].get('verification-results') or {}).get('verified')
        res.error_count = (run['json'].get('verification-results') or {}).get('errors')
        res.asm_text = asm.text()
        res.asm = asm
        res.main_path = main_p
        if tier == 'thorough' and not tool_errors:
            names = set(f['obligation'] for f in failures)
            for k in range(1, 5):
                with ThreadPoolExecutor(max_workers=14) as ex:
                    fm = ex.submit(run_verus, main_p, seed + 1 + k, rlimit, None, 4)
                    fps = [ex.submit(run_verus, pp, seed + 1 + k, rlimit, None, 2) for (_, _, _, pp) in part_files]
                    r = fm.result()
                    prs = [f.result() for f in fps]
                fk, tek, rlk = classify(asm, r, unit)
                for (pitem, pk, pasm, pp), prun in zip(part_files, prs):
                    pf, pte, prl = classify(pasm, prun, unit)
                    fk += pf
                    tek += pte
                    rlk += prl
                nk = set(f['obligation'] for f in fk)
                res.seeds.append({'seed': seed + 1 + k, 'solver': 'z3', 'failed': sorted(nk), 'wall_s': round(r['wall_s'], 2),
                                  'rlimit_hits': len(rlk)})
                if nk != names or rlk:
                    res.inconclusive.append('unstable across seeds: seed %d gives %s' % (seed + 1 + k, sorted(nk ^ names) or 'rlimit'))
    finally:
        res.wall_s = time.time() - t0
        if not keep:
            shutil.rmtree(work, ignore_errors=True)
        else:
            res.work = work
    return res
