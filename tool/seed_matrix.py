#!/usr/bin/env python3
"""runs every seeded change (seeded/<id>/patch.diff) against the check of its property on a scratch
copy of /repo (never /repo itself), records the outcome in seeded/<id>/meta.json (detected_by) and
writes seeded/MATRIX.md. Usage: tool/seed_matrix.py [seed-id ...]"""
import json, os, subprocess, sys, tempfile, shutil, re
V = os.path.dirname(os.path.dirname(os.path.abspath(__file__)))
seeds = sys.argv[1:] or sorted(d for d in os.listdir(os.path.join(V, 'seeded')) if os.path.isdir(os.path.join(V, 'seeded', d)))
INDEX = json.load(open(os.path.join(V, 'units', 'index.json')))
claimed = set(INDEX['properties'])
rows = []
for sid in seeds:
    sd = os.path.join(V, 'seeded', sid)
    meta = json.load(open(os.path.join(sd, 'meta.json')))
    prop = meta['property']
    if prop not in claimed:
        meta['detected_by'] = {'status': 'property not claimed (not_applicable)', 'obligations': []}
    else:
        d = tempfile.mkdtemp(prefix='seedrun-')
        try:
            subprocess.run(['rsync', '-a', '--exclude', 'target', '--exclude', '.git', '/repo/', d + '/'], check=True)
            p = subprocess.run(['patch', '-p1', '-s', '-i', os.path.join(sd, 'patch.diff')], cwd=d, capture_output=True, text=True)
            if p.returncode != 0:
                meta['detected_by'] = {'status': 'patch does not apply to the current tree', 'obligations': []}
            else:
                env = dict(os.environ, SYLT_REPO=d)
                r = subprocess.run([os.path.join(V, 'bin', 'check'), prop, '--no-evidence'], env=env, capture_output=True, text=True)
                tier = 'quick'
                if r.returncode == 0 and INDEX['properties'].get(prop, {}).get('thorough_extra'):
                    # the property has a thorough-tier extra (Kani harness on the real crate): a change the quick tier misses gets the thorough run
                    r = subprocess.run([os.path.join(V, 'bin', 'check'), prop, '--tier', 'thorough', '--no-evidence'], env=env, capture_output=True, text=True)
                    tier = 'thorough'
                obl = re.findall(r'failed obligation: (\S+)', r.stdout)
                wit = re.findall(r'failing input \(replayed on the real code\): (.*)', r.stdout)
                st = {0: 'MISSED (check passes)', 1: 'DETECTED' + (' (thorough tier)' if tier == 'thorough' else ''), 2: 'INCONCLUSIVE (exit 2, no alarm)'}.get(r.returncode, 'rc=%d' % r.returncode)
                meta['detected_by'] = {'status': st, 'check': './bin/check %s' % prop, 'obligations': sorted(set(obl)),
                                       'witness': wit[0][:300] if wit else None,
                                       'inconclusive': re.findall(r'INCONCLUSIVE: (.*)', r.stdout)[:3]}
        finally:
            shutil.rmtree(d, ignore_errors=True)
    json.dump(meta, open(os.path.join(sd, 'meta.json'), 'w'), indent=1)
    rows.append((sid, prop, meta['detected_by']['status'], meta['detected_by'].get('obligations', []), meta['summary']))
    print(sid, prop, meta['detected_by']['status'], ', '.join(o.split('[')[-1].rstrip(']') for o in meta['detected_by'].get('obligations', []))[:160], flush=True)
# matrix over all seeds (also those not re-run now)
allrows = []
for sid in sorted(d for d in os.listdir(os.path.join(V, 'seeded')) if os.path.isdir(os.path.join(V, 'seeded', d))):
    m = json.load(open(os.path.join(V, 'seeded', sid, 'meta.json')))
    db = m.get('detected_by') or {}
    allrows.append('| %s | %s | %s | %s | %s |' % (sid, m['property'], db.get('status', 'not run'),
                   '<br>'.join(o.split('::', 1)[-1] for o in db.get('obligations', [])) or '-', m['summary']))
open(os.path.join(V, 'seeded', 'MATRIX.md'), 'w').write(
    '# Seeded changes vs. checks\n\nEach change was produced by an independent sub-agent that saw only the property record, confirmed in a scratch worktree '
    '(158 tests still pass, demo differs), and run against the check of its property on a scratch copy of /repo (tool/seed_matrix.py).\n\n'
    '| seed | property | outcome | failed obligations | change |\n|---|---|---|---|---|\n' + '\n'.join(allrows) + '\n')
