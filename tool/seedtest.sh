#!/bin/sh
# developer helper: tool/seedtest.sh <patch.diff> <prop> [<prop>...]
# applies a seeded change to /repo, runs the checks (no evidence written), undoes the change
PATCH="$1"; shift
git -C /repo apply "$PATCH" || { echo "patch does not apply"; exit 3; }
for P in "$@"; do
  echo "== $P"
  "$(dirname "$0")/../bin/check" "$P" --no-evidence 2>&1 | grep -E "VIOLATION|failed obligation|INCONCLUSIVE|discharged|KNOWN|failing input" | head -12
done
git -C /repo checkout -- .
git -C /repo status --short | head -3
