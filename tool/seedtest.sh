#!/bin/sh
# developer helper: tool/seedtest.sh <patch.diff> <prop>...
# applies a seeded change to a SCRATCH COPY of /repo (never /repo itself: background runs copy /repo while
# this runs) and runs the given checks against the copy (no evidence written)
PATCH="$1"; shift
D=$(mktemp -d /tmp/seedtest-XXXXXX)
rsync -a --exclude target --exclude .git /repo/ "$D/"
( cd "$D" && patch -p1 -s -i "$PATCH" ) || { echo "PATCH DOES NOT APPLY"; rm -rf "$D"; exit 3; }
for P in "$@"; do
  echo "== $P"
  SYLT_REPO="$D" "$(dirname "$0")/../bin/check" "$P" --no-evidence 2>&1 | grep -E "VIOLATION|failed obligation|failing input|INCONCLUSIVE|discharged|KNOWN" | head -12
done
rm -rf "$D"
