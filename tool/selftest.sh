#!/bin/sh
# tool/selftest.sh [filter]: applies every hand-made change of tool/hand_mutants.tsv to a scratch copy of /repo
# and compares the check's verdict with the expectation. Exit 0 iff all agree.
DIR="$(cd "$(dirname "$0")/.." && pwd)"
FAIL=0; N=0
grep -v '^#' "$DIR/tool/hand_mutants.tsv" | while IFS="$(printf '\t')" read -r P F S EXP WHAT; do
  [ -z "$P" ] && continue
  if [ -n "$1" ] && ! echo "$P $WHAT" | grep -q "$1"; then continue; fi
  D=$(mktemp -d /tmp/selftest-XXXXXX)
  rsync -a --exclude target --exclude .git /repo/ "$D/"
  sed -i "$S" "$D/$F"
  if diff -q "/repo/$F" "$D/$F" >/dev/null; then echo "NOCHANGE  $P  $WHAT"; rm -rf "$D"; continue; fi
  SYLT_REPO="$D" "$DIR/bin/check" "$P" --no-evidence > "$D/out.txt" 2>&1; RC=$?
  case $RC in 0) GOT=PASS;; 1) GOT=VIOLATION;; 2) GOT=INCONCLUSIVE;; *) GOT="rc$RC";; esac
  OBL=$(grep -m1 "failed obligation" "$D/out.txt" | sed 's/failed obligation: //' | cut -c1-110)
  if [ "$GOT" = "$EXP" ]; then echo "ok        $P  $GOT  $WHAT  $OBL"; else echo "MISMATCH  $P  expected $EXP got $GOT  $WHAT"; fi
  rm -rf "$D"
done
