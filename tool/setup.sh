#!/bin/sh
# offline setup: nothing to build besides warming the macro-expansion cache (optional; checks do it on demand)
set -e
cd "$(dirname "$0")/.."
mkdir -p .cache out evidence
command -v verus >/dev/null || { echo "verus not on PATH"; exit 1; }
( cd "${SYLT_REPO:-/repo}" && CARGO_NET_OFFLINE=true CARGO_TARGET_DIR="$PWD/../verif/.cache/expand-target" true )
python3 - <<'PY'
import sys
sys.path.insert(0, 'tool')
import runner
try:
    runner.expand_crate('sylt-parser')
    print('macro expansion cache warmed')
except Exception as e:
    print('warning: expansion failed during setup (checks retry on demand):', e)
PY
echo setup ok
