//@ unit U-DEP
// Initialisation order of the globals (C11): the depth-first ordering of dependency.rs lists every global
// once, after the globals its initialiser depends on; a cyclic dependency set can therefore not be ordered.
use vstd::prelude::*;
use vstd::std_specs::cmp::*;
use std::collections::{BTreeMap, BTreeSet, HashMap};
verus! {

pub mod common {
    use super::*;
//@ include common/base_types.tpl
}

pub mod name_resolution {
    use super::*;
    use super::common::*;
//@ include common/resolved_ast.tpl
}

pub mod dependency {
    use super::*;
    use super::common::*;
    use super::name_resolution::{Expression, IfBranch, Statement, Type};

broadcast use vstd::std_specs::btree::group_btree_axioms;
/// assumption: usize keys of a BTreeMap / BTreeSet are ordered lawfully (vstd provides this for the primitive types)

// ================= specification vocabulary =======================================================
/// `ks` lists, in the order of `ordered`, the globals that are done: each is a global of `to`, its
/// statement is the one at the same position of `ordered`, none occurs twice, the listed globals are
/// exactly the done ones, and every dependency that is itself a global stands EARLIER in the list
pub open spec fn good(to: Map<usize, (BTreeSet<usize>, &Statement)>, done: spec_fn(usize) -> bool, ordered: Seq<&Statement>, ks: Seq<usize>) -> bool {
    &&& ks.len() == ordered.len()
    &&& forall|i: int| 0 <= i < ks.len() ==> to.contains_key(#[trigger] ks[i]) && *ordered[i] == *to[ks[i]].1
    &&& forall|i: int, j: int| 0 <= i < j < ks.len() ==> #[trigger] ks[i] != #[trigger] ks[j]
    &&& forall|k: usize| #[trigger] done(k) <==> ks.contains(k)
    &&& forall|i: int, dep: usize| 0 <= i < ks.len() && #[trigger] to[ks[i]].0@.contains(dep) && to.contains_key(dep)
            ==> exists|j: int| 0 <= j < i && #[trigger] ks[j] == dep
}

//@ fn sylt-compiler/src/dependency.rs statement_dependencies
//@   mode assumed
//@ end

//@ fn sylt-compiler/src/dependency.rs order
//@   props C11 C07
//@   ret r
//@   rewrite equivalent
//@- match inserted.entry(global.clone()) {
//@-     Vacant(entry) => entry.insert(State::Inserting),
//@-     Occupied(entry) => {
//@-         return match entry.get() {
//@-             State::Inserting => Err(Vec::new()),
//@-             State::Inserted => Ok(()),
//@-         }
//@-     }
//@- };
//@+ match inserted.get(global) {
//@+     None => { inserted.insert(global.clone(), State::Inserting); }
//@+     Some(known) => {
//@+         return match known {
//@+             State::Inserting => Err(Vec::new()),
//@+             State::Inserted => Ok(()),
//@+         }
//@+     }
//@+ };
//@   why vstd has no specification for BTreeMap::entry: a vacant entry is get() == None and its insert() is insert(); an occupied entry's get() is get()'s value
//@   endrewrite
//@   rewrite equivalent
//@- for dep in deps {
//@+ for dep in deps.iter() {
//@   why `for x in &set` is `for x in set.iter()`
//@   endrewrite
//@   rewrite equivalent
//@- recurse(dep, to_order, inserted, ordered).map_err(|mut cycle| {
//@-     cycle.push(*statement);
//@-     cycle
//@- })?;
//@+ match recurse(dep, to_order, inserted, ordered) { Ok(()) => {}, Err(mut cycle) => { cycle.push(*statement); return Err(cycle); } }
//@   why map_err with a closure followed by `?` is this match
//@   endrewrite
//@   inner recurse
//@     attr #[verifier::exec_allows_no_decreases_clause]
//@     ret r
//@     spec
        requires
            exists|ks: Seq<usize>| #![trigger ks.len()] good(to_order@, |k: usize| old(inserted)@.contains_key(k) && old(inserted)@[k] is Inserted, old(ordered)@, ks), //# C11 recurse.pre.order_so_far_is_good
        ensures
            r is Ok ==> exists|ks: Seq<usize>| #![trigger ks.len()] good(to_order@, |k: usize| final(inserted)@.contains_key(k) && final(inserted)@[k] is Inserted, final(ordered)@, ks), //# C11 recurse.the_order_stays_good
            r is Ok && to_order@.contains_key(*global) ==> final(inserted)@.contains_key(*global) && final(inserted)@[*global] is Inserted, //# C11 recurse.the_global_is_done
            r is Ok ==> forall|k: usize| old(inserted)@.contains_key(k) ==> final(inserted)@.contains_key(k) && (old(inserted)@[k] is Inserted <==> final(inserted)@[k] is Inserted), //# C11 recurse.what_was_done_stays_done_what_is_in_progress_stays_in_progress
//@     endspec
//@   endinner
//@   spec
        ensures r is Ok ==> exists|ks: Seq<usize>| #![trigger ks.len()] good(to_order@, |k: usize| to_order@.contains_key(k), r->Ok_0@, ks), //# C11 order.every_global_once_and_after_the_globals_it_depends_on
//@   endspec
//@   ghost before
//@| for (var, _) in to_order.iter() {
        broadcast use vstd::std_specs::btree::group_btree_axioms;
        proof {
            let e = Seq::<usize>::empty();
            assert(good(to_order@, |k: usize| inserted@.contains_key(k) && inserted@[k] is Inserted, ordered@, e));
            assert(e.len() == 0);
        }
//@   endghost
//@   loop 2 binder it
            invariant
                exists|ks: Seq<usize>| #![trigger ks.len()] good(to_order@, |k: usize| inserted@.contains_key(k) && inserted@[k] is Inserted, ordered@, ks), //# C11 order.loop.order_stays_good
                forall|x: usize| to_order@.contains_key(x) ==> exists|j: int| 0 <= j < it.seq().len() && *(#[trigger] it.seq()[j]).0 == x, //# - order.loop.every_global_is_visited
                forall|j: int| 0 <= j < it.index@ && to_order@.contains_key(*(#[trigger] it.seq()[j]).0) ==> inserted@.contains_key(*it.seq()[j].0) && inserted@[*it.seq()[j].0] is Inserted, //# C11 order.loop.every_global_visited_is_done
//@   endloop
//@   ghost after-loop 2
        proof {
            let to = to_order@;
            let df = |k: usize| inserted@.contains_key(k) && inserted@[k] is Inserted;
            let ksf = choose|ks: Seq<usize>| #![trigger ks.len()] good(to, df, ordered@, ks);
            assert forall|k: usize| #[trigger] to.contains_key(k) implies df(k) by { }
            assert forall|k: usize| #[trigger] df(k) implies to.contains_key(k) by {
                assert(ksf.contains(k));
                let i = choose|i: int| 0 <= i < ksf.len() && ksf[i] == k;
                assert(to.contains_key(ksf[i]));
            }
            assert(good(to, |k: usize| to.contains_key(k), ordered@, ksf));
        }
//@   endghost
//@   ghost before
//@| let (deps, statement) = if let Some(thing) = to_order.get(&global) {
        broadcast use vstd::std_specs::btree::group_btree_axioms;
        let ghost to = to_order@; let ghost ins0 = inserted@; let ghost ord0 = ordered@;
        let ghost ks0 = choose|ks: Seq<usize>| #![trigger ks.len()] good(to, |k: usize| ins0.contains_key(k) && ins0[k] is Inserted, ord0, ks);
//@   endghost
//@   ghost before
//@| for dep in deps.iter() {
        let ghost g = *global;
        proof {
            let d0 = |k: usize| ins0.contains_key(k) && ins0[k] is Inserted;
            let d1 = |k: usize| inserted@.contains_key(k) && inserted@[k] is Inserted;
            assert(!ins0.contains_key(g));
            assert forall|k: usize| #[trigger] d1(k) == d0(k) by { }
            assert(good(to, d1, ordered@, ks0)); //# C11 recurse.marking_the_global_in_progress_keeps_the_order_good
        }
//@   endghost
//@   loop 1 binder it
            invariant
                exists|ks: Seq<usize>| #![trigger ks.len()] good(to, |k: usize| inserted@.contains_key(k) && inserted@[k] is Inserted, ordered@, ks), //# C11 recurse.loop.order_stays_good
                to == to_order@, g == *global, to.contains_key(g) && to[g] == (*deps, *statement), //# - recurse.loop.aux1
                inserted@.contains_key(g) && inserted@[g] is Inserting, //# C11 recurse.loop.the_global_is_in_progress
                forall|k: usize| ins0.contains_key(k) ==> inserted@.contains_key(k) && (ins0[k] is Inserted <==> inserted@[k] is Inserted), //# C11 recurse.loop.done_stays_done
                forall|x: usize| deps@.contains(x) ==> exists|j: int| 0 <= j < it.seq().len() && *(#[trigger] it.seq()[j]) == x, //# - recurse.loop.every_dependency_is_visited
                forall|j: int| 0 <= j < it.index@ && to.contains_key(*(#[trigger] it.seq()[j])) ==> inserted@.contains_key(*it.seq()[j]) && inserted@[*it.seq()[j]] is Inserted, //# C11 recurse.loop.every_dependency_visited_is_done
//@   endloop
//@   ghost before
//@| ordered.push(*statement);
        let ghost ins1 = inserted@; let ghost ord1 = ordered@;
        let ghost ks1 = choose|ks: Seq<usize>| #![trigger ks.len()] good(to, |k: usize| ins1.contains_key(k) && ins1[k] is Inserted, ord1, ks);
        proof {
            assert forall|d: usize| #[trigger] deps@.contains(d) && to.contains_key(d) implies ins1.contains_key(d) && ins1[d] is Inserted by { } //# C11 recurse.every_dependency_is_done_before_the_global_is_listed
        }
//@   endghost
//@   ghost before
//@| Ok(())
        proof {
            let ks2 = ks1.push(g);
            let d1 = |k: usize| ins1.contains_key(k) && ins1[k] is Inserted;
            let d2 = |k: usize| inserted@.contains_key(k) && inserted@[k] is Inserted;
            assert(!d1(g));
            assert(!ks1.contains(g));
            assert forall|k: usize| #[trigger] d2(k) <==> ks2.contains(k) by {
                if k == g { assert(ks2[ks1.len() as int] == g); } else {
                    assert(d2(k) == d1(k));
                    if ks1.contains(k) { let i = choose|i: int| 0 <= i < ks1.len() && ks1[i] == k; assert(ks2[i] == k); }
                    if ks2.contains(k) { let i = choose|i: int| 0 <= i < ks2.len() && ks2[i] == k; assert(i < ks1.len()); assert(ks1[i] == k); }
                }
            }
            assert forall|i: int, dep: usize| 0 <= i < ks2.len() && #[trigger] to[ks2[i]].0@.contains(dep) && to.contains_key(dep)
                implies exists|j: int| 0 <= j < i && #[trigger] ks2[j] == dep by {
                if i < ks1.len() {
                    assert(ks2[i] == ks1[i]);
                    let j = choose|j: int| 0 <= j < i && #[trigger] ks1[j] == dep;
                    assert(ks2[j] == dep);
                } else {
                    assert(d1(dep));
                    assert(ks1.contains(dep));
                    let j = choose|j: int| 0 <= j < ks1.len() && ks1[j] == dep;
                    assert(ks2[j] == dep);
                }
            }
            assert(good(to, d2, ordered@, ks2)); //# C11 recurse.listing_the_global_after_its_dependencies_keeps_the_order_good
        }
//@   endghost
//@ end

/// the variable a top-level statement declares, if it declares one
pub open spec fn declared(s: Statement) -> Option<usize> {
    match s {
        Statement::ExternalDefinition { var, .. } => Some(var),
        Statement::Definition { var, .. } => Some(var),
        Statement::Blob { var, .. } => Some(var),
        Statement::Enum { var, .. } => Some(var),
        _ => None,
    }
}
/// the table built from the statements: one entry per declared variable, holding a statement that declares it
pub open spec fn table_of(to: Map<usize, (BTreeSet<usize>, &Statement)>, ss: Seq<Statement>, n: int) -> bool {
    &&& forall|k: usize| #[trigger] to.contains_key(k) ==> exists|i: int| 0 <= i < n && declared(#[trigger] ss[i]) == Some(k) && *to[k].1 == ss[i]
    &&& forall|i: int| 0 <= i < n && declared(#[trigger] ss[i]) is Some ==> to.contains_key(declared(ss[i])->Some_0)
}

//@ fn sylt-compiler/src/dependency.rs initialization_order
//@   props C11 C07
//@   ret r
//@   spec
        ensures r is Ok ==> exists|to: Map<usize, (BTreeSet<usize>, &Statement)>, ks: Seq<usize>| #![trigger table_of(to, statements@, statements@.len() as int), ks.len()]
            table_of(to, statements@, statements@.len() as int) && good(to, |k: usize| to.contains_key(k), r->Ok_0@, ks), //# C11 initialization_order.the_declarations_in_an_order_that_respects_their_dependencies
//@   endspec
//@   ghost before
//@| return order(to_order);
        assert(table_of(to_order@, statements@, statements@.len() as int)); //# C11 initialization_order.every_declaration_is_in_the_table
//@   endghost
//@   loop 1 binder it
            invariant
                it.seq().len() == statements@.len(), forall|k: int| 0 <= k < statements@.len() ==> *(#[trigger] it.seq()[k]) == statements@[k], //# - initialization_order.loop1.aux1
                table_of(to_order@, statements@, it.index@ as int), //# C11 initialization_order.loop1.table_so_far
//@   endloop
//@ end
}
} // verus!
fn main() {}
