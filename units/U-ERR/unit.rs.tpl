//@ unit U-ERR
// Rendering of an error to text (C07: "each of which renders to text ... never panics"): the span
// arithmetic of sylt-common/src/error.rs cannot underflow for a well-formed span.
use vstd::prelude::*;
verus! {

// ---- D-types: opaque placeholders --------------------------------------------------------------
// std::fmt: a formatter is an opaque sink; writing to it gives an opaque fmt::Result
pub mod fmt {
    use super::*;
    #[verifier::external_body] pub struct Formatter<'a> { x: &'a usize }
    #[verifier::external_body] pub struct Error { x: usize }
    pub type Result = core::result::Result<(), Error>;
}
#[verifier::external_body] pub struct Path { x: usize }
pub struct PathBuf { x: usize }
impl core::ops::Deref for PathBuf { type Target = Path; #[verifier::external_body] fn deref(&self) -> &Path { unimplemented!() } }
//@ type sylt-common/src/lib.rs enum FileOrLib keep=- clone=none eq=none
//@ type sylt-tokenizer/src/tokenizer.rs struct Span keep=Copy clone=keep eq=none

// D-msg: `write!` / `writeln!` hand text to the formatter; the text is dropped, the result is opaque
#[verifier::external_body]
fn opaque_write(f: &mut fmt::Formatter<'_>) -> fmt::Result { unimplemented!() }
macro_rules! write { ($f:expr, $($t:tt)*) => { opaque_write($f) }; }
macro_rules! writeln { ($f:expr, $($t:tt)*) => { opaque_write($f) }; }

/// a span as the tokenizer builds it (and Span::zero): it does not end before it starts
pub open spec fn span_wf(s: Span) -> bool { s.col_start <= s.col_end }

//@ fn sylt-common/src/error.rs write_source_line_from_file_at
//@   mode assumed
//@ end
//@ fn sylt-common/src/error.rs write_source_line_from_stdlib
//@   mode assumed
//@ end
//@ fn sylt-common/src/error.rs underline
//@   props C07
//@ end
//@ fn sylt-common/src/error.rs write_source_span_at
//@   props C07
//@   spec
        requires span_wf(span), //# C07 write_source_span_at.pre.the_span_does_not_end_before_it_starts
//@   endspec
//@ end

} // verus!
fn main() {}
