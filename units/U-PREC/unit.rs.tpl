//@ unit U-PREC
// Precedence climbing of the expression parser (C13), arrow-call sugar (C14), parser panic sites (C07).
// Everything between `//@ fn` .. `//@ end` is text taken from /repo at run time; the rest of this
// file is hand-written ghost vocabulary, stubs (assumed contracts) and shadow macros (D-msg).
use vstd::prelude::*;
use vstd::std_specs::cmp::*;
use core::cmp::Ordering;
use std::collections::{BTreeMap, HashMap, HashSet};
verus! {

// ---- D-types: opaque placeholders for types the unit never inspects --------------------------
// the run-time type of sylt_common (real declaration)
pub mod rt {
    use super::*;
    use std::collections::{BTreeMap, BTreeSet};
//@ type sylt-common/src/ty.rs enum Type keep=- eq=none clone=ext
}
pub use rt::Type as RuntimeType;
#[verifier::external_body] pub struct Path { x: usize }
// std::path::PathBuf: an opaque value with structural ==, a lawful hash (assumed, A-hash-fileorlib)
#[derive(Eq, Hash)] pub struct PathBuf { x: usize }
impl Clone for PathBuf { #[verifier::external_body] fn clone(&self) -> (r: Self) ensures r == *self { unimplemented!() } }
impl PartialEq for PathBuf { #[verifier::external_body] fn eq(&self, other: &Self) -> (r: bool) ensures r == (*self == *other) { unimplemented!() } }
pub uninterp spec fn pathbuf_of(p: &Path) -> PathBuf;
impl PathBuf { #[verifier::external_body] pub fn from(p: &Path) -> (r: PathBuf) ensures r == pathbuf_of(p) { unimplemented!() } }
impl core::ops::Deref for PathBuf { type Target = Path; #[verifier::external_body] fn deref(&self) -> &Path { unimplemented!() } }
impl Path {
    /// whether a path has a parent directory (everything except "" and a root)
    pub uninterp spec fn has_parent(&self) -> bool;
    #[verifier::external_body] pub fn parent(&self) -> (r: Option<&Path>) ensures r is Some == self.has_parent() { unimplemented!() }
}
// the real FileOrLib of sylt_common (tree() builds and matches on it)
//@ type sylt-common/src/lib.rs enum FileOrLib keep=Eq,Hash
#[verifier::external_body] pub struct Error { x: usize }
pub struct TyID(pub usize);
type T = Token;
type Alias = Identifier;

// ---- types, taken from the repository ---------------------------------------------------------
//@ type sylt-tokenizer/src/token.rs enum Token
//@ type sylt-tokenizer/src/tokenizer.rs struct Span keep=Copy clone=ext eq=none
//@ type sylt-parser/src/parser.rs enum Prec keep=Copy,PartialOrd clone=keep eq=keep
//@ type sylt-parser/src/parser.rs enum VarKind keep=Copy clone=keep eq=keep
//@ include common/parser_ast.tpl
//@ type sylt-parser/src/parser.rs struct Identifier keep=- clone=ext
//@ type sylt-parser/src/parser.rs struct TypeConstraint eq=none
//@ type sylt-parser/src/parser.rs type ParseResult
//@ type sylt-parser/src/parser.rs struct Context keep=Copy clone=keep
//@ type sylt-tokenizer/src/tokenizer.rs struct PlacedToken eq=none

// R-next: Verus wants the `Sized` bound on a trait whose method returns Self.
pub trait Next: Sized { fn next(&self) -> Self; }

// ---- specification vocabulary (written from the statement of C13, not from the code) ----------

/// the documented order of the levels (written from the statement)
pub open spec fn rank(p: Prec) -> int {
    match p {
        Prec::No => 0, Prec::Assert => 1, Prec::BoolOr => 2, Prec::BoolAnd => 3, Prec::Comp => 4,
        Prec::Term => 5, Prec::Factor => 6, Prec::Index => 7, Prec::Arrow => 8,
    }
}
/// position of each variant in the declaration found in /repo (generated on every run): what
/// `derive(PartialOrd)` compares by (assumption A-derive-ord, discharged on the real crate by the
/// Kani harness of the thorough tier)
//@ declorder sylt-parser/src/parser.rs Prec decl_rank
impl PartialOrdSpecImpl for Prec {
    open spec fn obeys_partial_cmp_spec() -> bool { true }
    open spec fn partial_cmp_spec(&self, other: &Prec) -> Option<Ordering> {
        if decl_rank(*self) < decl_rank(*other) { Some(Ordering::Less) }
        else if decl_rank(*self) > decl_rank(*other) { Some(Ordering::Greater) }
        else { Some(Ordering::Equal) }
    }
}
/// the declaration order in the repository is the documented order
proof fn lemma_declaration_order_is_documented_order()
    ensures forall|p: Prec| decl_rank(p) == rank(p), //# C13 prec.declaration_order_is_documented_order
{
}
/// how the executable comparison `a <= b` on Prec relates to the documented order
proof fn lemma_prec_le(a: Prec, b: Prec)
    ensures decl_rank(a) == rank(a), decl_rank(b) == rank(b),
{
    lemma_declaration_order_is_documented_order();
}

/// The table of the property: `<=>` loosest (1), `or`, `and`, comparisons, `+ -`, `* /` tightest (6).
pub open spec fn binop_rank(t: Token) -> int {
    match t {
        Token::AssertEqual => 1,
        Token::Or => 2,
        Token::And => 3,
        Token::EqualEqual | Token::NotEqual | Token::Greater | Token::GreaterEqual | Token::Less | Token::LessEqual => 4,
        Token::Plus | Token::Minus => 5,
        Token::Star | Token::Slash => 6,
        _ => -1,
    }
}
/// rank of every token that continues an expression inside parse_precedence: the binary operators,
/// and above all of them call / index / field access (the level of Prec::Index) and the arrow
pub open spec fn tok_rank(t: Token) -> int {
    match t {
        Token::LeftBracket | Token::Dot | Token::LeftParen => 7,
        Token::Arrow => 8,
        _ => binop_rank(t),
    }
}
/// tokens that continue an expression as a postfix form (call, index, field access, arrow call)
pub open spec fn is_postfix_tok(t: Token) -> bool {
    t is Arrow || t is Prime || t is LeftParen || t is LeftBracket || t is Dot
}
/// rank of the root operator of an expression; atoms (everything that is not a binary node) 100
pub open spec fn top_rank(e: Expression) -> int {
    match e.kind {
        ExpressionKind::AssertEq(_, _) => 1,
        ExpressionKind::Or(_, _) => 2,
        ExpressionKind::And(_, _) => 3,
        ExpressionKind::Comparison(_, _, _) => 4,
        ExpressionKind::Add(_, _) | ExpressionKind::Sub(_, _) => 5,
        ExpressionKind::Mul(_, _) | ExpressionKind::Div(_, _) => 6,
        _ => 100,
    }
}
/// well-bracketed with respect to the table: left child at least as tight as the node, right
/// child strictly tighter (left associativity); operand of a unary operator at least `* /`.
// std function without a vstd specification: dropping a value has no effect a contract can see
pub assume_specification<T> [ core::mem::drop::<T> ] (x: T);
pub open spec fn pexprs_shape(xs: Seq<Expression>) -> bool { forall|i: int| 0 <= i < xs.len() ==> pe_shape(#[trigger] xs[i]) }
pub open spec fn params_pt_ok(ps: Seq<(Identifier, Type)>) -> bool { forall|k: int| 0 <= k < ps.len() ==> pt_ok((#[trigger] ps[k]).1) }
pub open spec fn wf(e: Expression) -> bool decreases e {
    match e.kind {
        ExpressionKind::AssertEq(l, r) | ExpressionKind::Or(l, r) | ExpressionKind::And(l, r)
        | ExpressionKind::Add(l, r) | ExpressionKind::Sub(l, r) | ExpressionKind::Mul(l, r) | ExpressionKind::Div(l, r)
          => wf(*l) && wf(*r) && top_rank(*l) >= top_rank(e) && top_rank(*r) > top_rank(e),
        ExpressionKind::Comparison(l, _, r)
          => wf(*l) && wf(*r) && top_rank(*l) >= top_rank(e) && top_rank(*r) > top_rank(e),
        ExpressionKind::Neg(x) | ExpressionKind::Not(x) => wf(*x) && top_rank(*x) >= 6,
        ExpressionKind::Parenthesis(x) => wf(*x),
        ExpressionKind::Tuple(xs) | ExpressionKind::List(xs) => wf_all(xs@),
        _ => true,
    }
}
pub open spec fn wf_all(xs: Seq<Expression>) -> bool decreases xs {
    forall|i: int| 0 <= i < xs.len() ==> wf(#[trigger] xs[i])
}
/// the node built for operator `op` with left operand `lhs` (the mapping of the statement:
/// `+` is an addition, `<=` is the less-or-equal comparison, ...)
pub open spec fn node_matches(op: Token, e: Expression, lhs: Expression) -> bool {
    match op {
        Token::Plus => e.kind is Add && *e.kind->Add_0 == lhs,
        Token::Minus => e.kind is Sub && *e.kind->Sub_0 == lhs,
        Token::Star => e.kind is Mul && *e.kind->Mul_0 == lhs,
        Token::Slash => e.kind is Div && *e.kind->Div_0 == lhs,
        Token::And => e.kind is And && *e.kind->And_0 == lhs,
        Token::Or => e.kind is Or && *e.kind->Or_0 == lhs,
        Token::AssertEqual => e.kind is AssertEq && *e.kind->AssertEq_0 == lhs,
        Token::EqualEqual => e.kind is Comparison && *e.kind->Comparison_0 == lhs && e.kind->Comparison_1 is Equals,
        Token::NotEqual => e.kind is Comparison && *e.kind->Comparison_0 == lhs && e.kind->Comparison_1 is NotEquals,
        Token::Greater => e.kind is Comparison && *e.kind->Comparison_0 == lhs && e.kind->Comparison_1 is Greater,
        Token::GreaterEqual => e.kind is Comparison && *e.kind->Comparison_0 == lhs && e.kind->Comparison_1 is GreaterEqual,
        Token::Less => e.kind is Comparison && *e.kind->Comparison_0 == lhs && e.kind->Comparison_1 is Less,
        Token::LessEqual => e.kind is Comparison && *e.kind->Comparison_0 == lhs && e.kind->Comparison_1 is LessEqual,
        _ => true,
    }
}
/// C14: what `lhs -> rhs` becomes: the receiver is prepended to the innermost call of the chain
pub open spec fn prepend_kind(sp: Span, lhs: Expression, rhs: Expression) -> Option<ExpressionKind> decreases rhs {
    match rhs.kind {
        ExpressionKind::Get(a) => match a.kind {
            AssignableKind::Call(callee, args) => Some(ExpressionKind::Get(Assignable { kind: AssignableKind::ArrowCall(Box::new(lhs), callee, args), span: rhs.span })),
            AssignableKind::ArrowCall(pre, callee, args) => match prepend_kind(sp, lhs, *pre) {
                Some(k) => Some(ExpressionKind::Get(Assignable { kind: AssignableKind::ArrowCall(Box::new(Expression { span: sp, ty: None, kind: k }), callee, args), span: rhs.span })),
                None => None,
            },
            _ => None,
        },
        _ => None,
    }
}
pub open spec fn pfields_shape(fs: Seq<(String, Expression)>) -> bool { forall|i: int| 0 <= i < fs.len() ==> pe_shape((#[trigger] fs[i]).1) }
/// right operand of a binary node
pub open spec fn rhs_of(e: Expression) -> Expression {
    match e.kind {
        ExpressionKind::AssertEq(_, r) | ExpressionKind::Or(_, r) | ExpressionKind::And(_, r)
        | ExpressionKind::Add(_, r) | ExpressionKind::Sub(_, r) | ExpressionKind::Mul(_, r) | ExpressionKind::Div(_, r) => *r,
        ExpressionKind::Comparison(_, _, r) => *r,
        _ => e,
    }
}

// ---- D-msg: shadow macros. Error values are opaque; the control flow of the project's macros
// (parser.rs `syntax_error!`, `raise_syntax_error!`) is kept: return Err((ctx.skip(1), [error])).
#[verifier::external_body]
fn opaque_syntax_error(span: Span) -> Error { unimplemented!() }
macro_rules! syntax_error { ($ctx:expr, $( $msg:expr ),* ) => { opaque_syntax_error($ctx.span()) }; }
macro_rules! raise_syntax_error {
    ($ctx:expr, $( $msg:expr ),* ) => {
        return Err(($ctx.skip(1), vec![syntax_error!($ctx, $( $msg ),*)]))
    };
}
//@ macro sylt-parser/src/parser.rs expect
//@ macro sylt-parser/src/parser.rs skip_until

// ---- Context: the token cursor ---------------------------------------------------------------
impl<'a> Context<'a> {
    /// the token the parser looks at: `tokens[curr]`, `EOF` past the end
    /// the span of the current token (zero span past the end)
    pub closed spec fn span_s(&self) -> Span {
        if self.curr < self.spans@.len() { self.spans@[self.curr as int] } else { Span { file_id: self.file_id, line_start: 0, line_end: 0, col_start: 0, col_end: 0 } }
    }
    pub closed spec fn tok(&self) -> Token {
        if self.curr < self.tokens@.len() { self.tokens@[self.curr as int] } else { Token::EOF }
    }

//@ fn sylt-parser/src/parser.rs new
//@   in <'a> Context<'a>
//@   props C07
//@ end
//@ fn sylt-parser/src/parser.rs comments_since_last_statement
//@   in <'a> Context<'a>
//@   mode assumed
//@ end

//@ fn sylt-parser/src/parser.rs peek
//@   in <'a> Context<'a>
//@   props C07 C13
//@   ret r
//@   spec
        ensures *r.0 == self.tok(), //# C13 ctx.peek_is_current_token
            r.1 == self.span_s(), //# C07 peek.spec.aux1
//@   endspec
//@ end

//@ fn sylt-parser/src/parser.rs token
//@   in <'a> Context<'a>
//@   props C07 C13
//@   ret r
//@   spec
        ensures *r == self.tok(), //# C13 ctx.token_is_current_token
//@   endspec
//@ end

//@ fn sylt-parser/src/parser.rs span
//@   in <'a> Context<'a>
//@   props C07
//@   ret r
//@   spec
        ensures r == self.span_s(), //# C07 span.spec.aux1
//@   endspec
//@ end

//@ fn sylt-parser/src/parser.rs skip
//@   in <'a> Context<'a>
//@   mode assumed
//@   ret r
//@   spec
        ensures r.tokens == self.tokens, r.skip_newlines == self.skip_newlines,
//@   endspec
//@ end

//@ fn sylt-parser/src/parser.rs prev
//@   in <'a> Context<'a>
//@   mode assumed
//@   ret r
//@   spec
        ensures r.tokens == self.tokens,
//@   endspec
//@ end

//@ fn sylt-parser/src/parser.rs push_skip_newlines
//@   in <'a> Context<'a>
//@   props C07
//@   ret r
//@   spec
        ensures r.0.tokens == self.tokens, //# C07 push_skip_newlines.spec.aux1
            r.0.skip_newlines == skip_newlines && r.1 == self.skip_newlines, //# C14 push_skip_newlines.sets_the_mode_and_returns_the_old_one
//@   endspec
//@ end

//@ fn sylt-parser/src/parser.rs pop_skip_newlines
//@   in <'a> Context<'a>
//@   props C07
//@   ret r
//@   spec
        ensures r.tokens == self.tokens, r.tok() == self.tok(), //# C13 ctx.pop_keeps_position
            r.skip_newlines == skip_newlines, //# C14 pop_skip_newlines.restores_the_mode
//@   endspec
//@ end

//@ fn sylt-parser/src/parser.rs skip_if
//@   in <'a> Context<'a>
//@   props C07
//@   ret r
//@   spec
        ensures r.tokens == self.tokens, //# C07 skip_if.spec.aux1
            self.tok() != token ==> r == *self, //# C13 ctx.skip_if_stays
//@   endspec
//@ end

//@ fn sylt-parser/src/parser.rs eat
//@   in <'a> Context<'a>
//@   props C07 C13
//@   ret r
//@   spec
        ensures *r.0 == self.tok(), r.2.tokens == self.tokens, //# C13 ctx.eat_returns_current_token
//@   endspec
//@ end
}

impl Span {
//@ fn sylt-tokenizer/src/tokenizer.rs zero
//@   in Span
//@   props C07
//@   ret r
//@   spec
        ensures r == (Span { file_id, line_start: 0, line_end: 0, col_start: 0, col_end: 0 }), //# C07 zero.spec.aux1
//@   endspec
//@ end
}

impl Identifier {
//@ fn sylt-parser/src/parser.rs new
//@   in Identifier
//@   props C07
//@   ret r
//@   spec
        ensures r.span == span, r.name == name, //# C07 new.spec.aux1
//@   endspec
//@ end
}

impl Expression {
//@ fn sylt-parser/src/expression.rs new
//@   in Expression
//@   props C07 C13
//@   ret r
//@   spec
        ensures r.span == span, r.kind == kind, r.ty is None, //# C13 expr.new_keeps_kind
//@   endspec
//@ end
}

// ---- the real proc-macro output of derive(Next) on Prec -------------------------------------
impl Next for Prec {
//@ fn expanded:sylt-parser next
//@   in Next for Prec
//@   props C13
//@   nocanary
//@   ret r
//@   spec
        ensures rank(r) == if rank(*self) < 8 { rank(*self) + 1 } else { 8 }, //# C13 prec.next_is_successor
//@   endspec
//@ end
}

// ---- leaf parsers left outside (assumed): the root of what they return is not a binary node ----
//@ fn sylt-parser/src/expression.rs function
//@   props C07 C13
//@   attr #[verifier::exec_allows_no_decreases_clause]
//@   ret r
//@   rewrite equivalent
//@- let ret = loop {
//@+ let mut ret_slot: Option<Type> = None; loop {
//@   why Verus has no `break` with a value: the value is stored in a slot right before a plain break and read after the loop (last part below); that the slot is filled on every exit is an obligation the verifier discharges (the unreachable!() in the read)
//@   endrewrite
//@   rewrite equivalent
//@- break if let Ok((ctx_, ret)) = parse_type(ctx) {
//@-     ctx = ctx_; // assign to outer
//@-     ret
//@- } else {
//@-     Type { span: ctx.span(), kind: Resolved(Unknown) }
//@- };
//@+ ret_slot = Some(if let Ok((ctx_, ret)) = parse_type(ctx) {
//@+     ctx = ctx_; // assign to outer
//@+     ret
//@+ } else {
//@+     Type { span: ctx.span(), kind: Resolved(Unknown) }
//@+ }); break;
//@   why part of the rewrite above
//@   endrewrite
//@   rewrite equivalent
//@- break Type { span: ctx.span(), kind: Resolved(Void) };
//@+ ret_slot = Some(Type { span: ctx.span(), kind: Resolved(Void) }); break;
//@   why part of the rewrite above
//@   endrewrite
//@   rewrite equivalent
//@-         }
//@-     }
//@- };
//@+         }
//@+     }
//@+ } let ret = match ret_slot { Some(t) => t, None => unreachable!() };
//@   why last part of the rewrite above
//@   endrewrite
//@   rewrite rule:R-deref
//@- if name == "self" {
//@+ if *name == *"self" {
//@   why vstd has no specification for the reference-level blanket impl of == on (&String, &str); dereferencing both sides calls String: PartialEq<str> directly
//@   endrewrite
//@   spec
        ensures r is Ok ==> wf(r->Ok_0.1) && top_rank(r->Ok_0.1) == 100, //# C13 function.is_an_atom
        r is Ok ==> pe_shape(r->Ok_0.1), //# C07 function.result_shape
        r is Err ==> r->Err_0.1.len() >= 1, //# C07 function.an_error_result_is_never_an_empty_list
//@   endspec
//@   loop 1
        invariant params_pt_ok(params@), //# C07 function.loop1.parameter_types_are_translatable
        ensures ret_slot is Some && pt_ok(ret_slot->Some_0), //# C07 function.loop1.the_return_type_is_set_on_exit
//@   endloop
//@   loop 2
        invariant pall_shape(statements@), //# C07 function.loop2.aux1
//@   endloop
//@ end
//@ fn sylt-parser/src/expression.rs if_expression
//@   props C07 C13
//@   attr #[verifier::exec_allows_no_decreases_clause]
//@   ret r
//@   spec
        ensures r is Ok ==> wf(r->Ok_0.1) && top_rank(r->Ok_0.1) == 100, //# C13 if_expression.atom
        r is Ok ==> pe_shape(r->Ok_0.1), //# C07 if_expression.result_has_a_branch_and_shape
        r is Err ==> r->Err_0.1.len() >= 1, //# C07 if_expression.an_error_result_is_never_an_empty_list
//@   endspec
//@   loop 1
        invariant
            branches@.len() >= 1, forall|i: int| 0 <= i < branches@.len() ==> pib_shape(#[trigger] branches@[i]), //# C07 if_expression.loop.at_least_one_branch_all_shaped
//@   endloop
//@   ghost before
//@| branches.push(IfBranch { span, condition: None, body });
        let ghost before_else = branches@;
//@   endghost
//@   ghost after
//@| branches.push(IfBranch { span, condition: None, body });
        proof {
            assert forall|i: int| 0 <= i < branches@.len() implies pib_shape(#[trigger] branches@[i]) by {
                if i < before_else.len() { assert(branches@[i] == before_else[i]); }
            }
        }
//@   endghost
//@ end
//@ fn sylt-parser/src/expression.rs case_expression
//@   props C07 C13
//@   attr #[verifier::exec_allows_no_decreases_clause]
//@   ret r
//@   spec
        ensures r is Ok ==> wf(r->Ok_0.1) && top_rank(r->Ok_0.1) == 100, //# C13 case_expression.atom
        r is Ok ==> pe_shape(r->Ok_0.1), //# C07 case_expression.result_shape
        r is Err ==> r->Err_0.1.len() >= 1, //# C07 case_expression.an_error_result_is_never_an_empty_list
//@   endspec
//@   loop 1
        invariant
            pe_shape(*to_match), forall|i: int| 0 <= i < branches@.len() ==> pcb_shape(#[trigger] branches@[i]), //# C07 case_expression.loop.arms_shaped
//@   endloop
//@ end
//@ fn sylt-parser/src/expression.rs blob
//@   props C07 C13
//@   attr #[verifier::exec_allows_no_decreases_clause]
//@   ret r
//@   spec
        ensures r is Ok ==> wf(r->Ok_0.1) && top_rank(r->Ok_0.1) == 100, //# C13 blob.atom
        r is Ok ==> pe_shape(r->Ok_0.1), //# C07 blob.result_shape
        r is Err ==> r->Err_0.1.len() >= 1, //# C07 blob.an_error_result_is_never_an_empty_list
//@   endspec
//@   loop 1
        invariant
            pfields_shape(fields@), //# C07 blob.loop.fields_shaped
//@   endloop
//@ end
//@ fn sylt-parser/src/statement.rs statement
//@   mode assumed
//@   ret r
//@   spec
        // assumed (the 450-line statement parser: slice patterns over const-generic lookahead arrays, nested
        // fn items and higher-order list macros are outside Verus): the statements it returns have the
        // shape the resolver relies on, and a failure carries at least one error
        ensures r is Ok ==> ps_shape(r->Ok_0.1),
            r is Err ==> r->Err_0.1.len() >= 1,
//@   endspec
//@ end
//@ fn sylt-parser/src/statement.rs outer_statement
//@   props C07
//@   ret r
//@   spec
        ensures r is Ok ==> ps_shape(r->Ok_0.1), //# C07 outer_statement.result_shape
            r is Ok ==> r->Ok_0.1.kind is Blob || r->Ok_0.1.kind is Enum || r->Ok_0.1.kind is Definition || r->Ok_0.1.kind is ExternalDefinition
                || r->Ok_0.1.kind is Use || r->Ok_0.1.kind is FromUse || r->Ok_0.1.kind is EmptyStatement, //# C07 outer_statement.only_declarations_definitions_and_imports_at_the_top_level
            r is Err ==> r->Err_0.1.len() >= 1, //# C07 outer_statement.an_error_result_is_never_an_empty_list
//@   endspec
//@ end
//@ fn sylt-parser/src/statement.rs block
//@   props C07
//@   attr #[verifier::exec_allows_no_decreases_clause]
//@   ret r
//@   spec
        ensures r is Ok ==> pall_shape(r->Ok_0.1@), //# C07 block.result_shape
            r is Err ==> r->Err_0.1.len() >= 1, //# C07 block.an_error_result_is_never_an_empty_list
//@   endspec
//@   loop 1
        invariant pall_shape(statements@), //# C07 block.loop1.statements_so_far_have_shape
//@   endloop
//@ end
//@ fn sylt-parser/src/parser.rs module
//@   props C07
//@   attr #[verifier::exec_allows_no_decreases_clause]
//@   ret r
//@   rewrite equivalent
//@- let tokens: Vec<_> = token_stream.iter().map(|p| p.token.clone()).collect();
//@+ let mut tokens: Vec<Token> = Vec::new();
//@+ for p in token_stream.iter() { tokens.push(p.token.clone()); }
//@   why map/collect into a Vec pushes one result per element, in order
//@   endrewrite
//@   rewrite equivalent
//@- let spans: Vec<_> = token_stream.iter().map(|p| p.span).collect();
//@+ let mut spans: Vec<Span> = Vec::new();
//@+ for p in token_stream.iter() { spans.push(p.span); }
//@   why as above
//@   endrewrite
//@   spec
        ensures r.1 is Ok ==> module_ok(r.1->Ok_0), //# C07 module.every_statement_of_a_module_is_a_top_level_statement_with_the_parser_shape
            r.1 is Err ==> r.1->Err_0.len() >= 1, //# C07 module.an_error_result_is_never_an_empty_list
//@   endspec
//@   loop 3
//@| while !matches!(ctx.token(), T::EOF)
        invariant all_top(statements@), //# C07 module.loop.statements_so_far_are_top_level_statements_with_the_parser_shape
//@   endloop
//@ end
// ---- the import worklist: sylt_parser::tree ------------------------------------------------------
/// assumption A-finite-imports: FileOrLib has finitely many values (a path is a bounded machine value), so
/// the files one compilation can name form a finite set. Without it no import worklist terminates; with
/// it tree() terminates because a file is marked visited BEFORE it is read and parsed, so every file is
/// read at most once
pub uninterp spec fn import_universe() -> Set<FileOrLib>;
#[verifier::external_body]
proof fn axiom_import_universe_finite() ensures import_universe().finite(), forall|f: FileOrLib| #[trigger] import_universe().contains(f) {}
#[verifier::external_body]
proof fn axiom_fileorlib_hash_key() ensures vstd::std_specs::hash::obeys_key_model::<FileOrLib>() {}
#[verifier::external_body]
pub fn library_source(name: &str) -> (r: Option<&'static str>)
    ensures r is Some // assumed: every library name inside a FileOrLib::Lib is a key of the built-in table
{ unimplemented!() }
#[verifier::external_body]
pub fn string_to_tokens(file_id: usize, content: &str) -> Vec<PlacedToken> { unimplemented!() }
#[verifier::external_body]
pub fn find_conflict_markers(file: &FileOrLib, file_id: usize, source: &str) -> Vec<Error> { unimplemented!() }
#[verifier::external_body]
fn preamble_index(modules: &Vec<(FileOrLib, Module)>) -> usize { unimplemented!() }
#[verifier::external_body]
fn without_repeated_errors(errors: Vec<Error>) -> Vec<Error> { unimplemented!() }

//@ fn sylt-parser/src/parser.rs tree
//@   props C07
//@   ret r
//@   rewrite opaque
//@- let basics_index = modules
//@-     .iter()
//@-     .position(|(f, _)| *f == FileOrLib::Lib("preamble"))
//@-     .expect("Error in the preamble code");
//@+ let basics_index = preamble_index(&modules);
//@   why iterator position with a closure that ignores a tuple field; the `expect` fails only if the built-in preamble does not parse (no input decides that)
//@   endrewrite
//@   rewrite equivalent
//@- modules = modules
//@-     .into_iter()
//@-     .map(|(file, mut module)| {
//@-         match file {
//@-             FileOrLib::File(_) => {
//@-                 module.statements.append(&mut std.statements.clone());
//@-             }
//@-             FileOrLib::Lib(_) => {}
//@-         };
//@-         (file, module)
//@-     })
//@-     .collect();
//@+ let mut merged: Vec<(FileOrLib, Module)> = Vec::new();
//@+ for (file, mut module) in modules.into_iter() {
//@+     match file {
//@+         FileOrLib::File(_) => {
//@+             module.statements.append(&mut std.statements.clone());
//@+         }
//@+         FileOrLib::Lib(_) => {}
//@+     };
//@+     merged.push((file, module));
//@+ }
//@+ modules = merged;
//@   why into_iter().map(f).collect() into a Vec pushes f(element) per element, in order
//@   endrewrite
//@   rewrite opaque
//@- let mut seen = HashSet::new();
//@- let errors = errors
//@-     .into_iter()
//@-     .filter(|err| match err {
//@-         Error::SyntaxError { span, file, .. } => seen.insert((span.clone(), file.clone())),
//@-
//@-         _ => true,
//@-     })
//@-     .collect();
//@+ let errors = without_repeated_errors(errors);
//@   why filter with a closure that mutates a captured set; only the error list is affected
//@   endrewrite
//@   spec
        requires forall|p: &Path| reader.requires((p,)), //# C07 tree.pre.the_reader_can_be_asked_for_any_path
            path.has_parent(), //# C07 tree.pre.the_main_path_has_a_parent_directory
        ensures r is Ok ==> modules_ok(r->Ok_0.modules@), //# C07 tree.every_statement_of_every_module_is_a_top_level_statement_with_the_parser_shape
//@   endspec
//@   ghost entry
        proof { axiom_fileorlib_hash_key(); axiom_import_universe_finite(); }
        broadcast use vstd::std_specs::hash::group_hash_axioms;
//@   endghost
//@   loop 1
//@| while let Some(include) = to_visit.pop()
        invariant modules_ok(modules@), //# C07 tree.loop.modules_so_far_hold_top_level_statements_with_the_parser_shape
            visited@.subset_of(import_universe()), import_universe().finite(), vstd::std_specs::hash::obeys_key_model::<FileOrLib>(), //# - tree.loop.aux
            forall|f: FileOrLib| #[trigger] import_universe().contains(f), //# - tree.loop.aux3
            forall|p: &Path| reader.requires((p,)), //# - tree.loop.aux2
        decreases import_universe().len() - visited@.len(), to_visit@.len(), //# C07 tree.loop.every_round_marks_a_new_file_visited_or_shortens_the_worklist
//@   endloop
//@   ghost after
//@| visited.insert(include.clone());
        proof { vstd::set_lib::lemma_len_subset(visited@, import_universe()); }
//@   endghost
//@   loop 2 binder itm
//@| for (file, mut module) in modules.into_iter()
        invariant modules_ok(merged@), module_ok(std), //# C07 tree.loop2.modules_with_the_preamble_appended_still_hold_top_level_statements
            forall|k: int| 0 <= k < itm.seq().len() ==> module_ok((#[trigger] itm.seq()[k]).1), //# - tree.loop2.aux
//@   endloop
//@ end
//@ fn sylt-parser/src/parser.rs parse_type
//@   mode assumed
//@   ret r
//@   spec
    // assumed: the only `Resolved` types parse_type builds are the seven primitive run-time types
    ensures r is Ok ==> pt_ok(r->Ok_0.1),
        r is Err ==> r->Err_0.1.len() >= 1, // assumed: every failure of parse_type is one raise_syntax_error!
//@   endspec
//@ end
//@ fn sylt-parser/src/parser.rs is_capitalized
//@   mode assumed
//@ end
//@ fn sylt-parser/src/parser.rs parse_type_constraint_argument
//@   props C07
//@   attr #[verifier::exec_allows_no_decreases_clause]
//@   ret r
//@   spec
    ensures r is Err ==> r->Err_0.1.len() >= 1, //# C07 parse_type_constraint_argument.an_error_result_is_never_an_empty_list
        r is Ok ==> r->Ok_0.0.tok() is Plus || r->Ok_0.0.tok() is Comma || r->Ok_0.0.tok() is Greater, //# C07 parse_type_constraint_argument.stops_at_plus_comma_or_greater
//@   endspec
//@   loop 1
        ensures ctx.tok() is Plus || ctx.tok() is Comma || ctx.tok() is Greater, //# C07 parse_type_constraint_argument.loop.exit
//@   endloop
//@ end
//@ fn sylt-parser/src/parser.rs parse_type_constraint
//@   props C07
//@   ret r
//@   spec
    ensures r is Err ==> r->Err_0.1.len() >= 1, //# C07 parse_type_constraint.an_error_result_is_never_an_empty_list
        r is Ok ==> r->Ok_0.0.tok() is Plus || r->Ok_0.0.tok() is Comma || r->Ok_0.0.tok() is Greater, //# C07 parse_type_constraint.stops_at_plus_comma_or_greater
//@   endspec
//@ end
//@ fn sylt-parser/src/parser.rs type_assignable
//@   props C07
//@   ret r
//@   rewrite equivalent count=2
//@- T::Identifier(name) if is_capitalized(name) => {
//@+ T::Identifier(name) => if is_capitalized(name) {
//@   why Verus cannot mutate through a guarded arm and the two guarded arms share one pattern: the second guard is the negation of the first (is_capitalized is a pure function of the name), so the two arms are the two branches of one if (second half below)
//@   endrewrite
//@   rewrite equivalent count=2
//@- T::Identifier(name) if !is_capitalized(name) => {
//@+ else {
//@   why second half of the rewrite above
//@   endrewrite
//@   inner type_assignable_inner
//@     attr #[verifier::exec_allows_no_decreases_clause]
//@     ret r
//@     spec
        ensures r is Err ==> r->Err_0.1.len() >= 1, //# C07 type_assignable_inner.an_error_result_is_never_an_empty_list
//@     endspec
//@   endinner
//@   spec
    ensures r is Err ==> r->Err_0.1.len() >= 1, //# C07 type_assignable.an_error_result_is_never_an_empty_list
//@   endspec
//@ end
//@ fn sylt-parser/src/parser.rs assignable_call
//@   props C07 C14
//@   attr #[verifier::exec_allows_no_decreases_clause]
//@   ret r
//@   rewrite rule:R-lookahead
//@- ctx = match ctx.tokens_lookahead::<2>() {
//@-     [T::Newline, T::Comma] => ctx.skip(2),
//@-     [T::Comma, T::Newline] => ctx.skip(2),
//@-     [T::Comma, ..] => ctx.skip(1),
//@-     _ => ctx,
//@- };
//@+ ctx = match (ctx.token().clone(), ctx.skip(1).token().clone()) {
//@+     (T::Newline, T::Comma) => ctx.skip(2),
//@+     (T::Comma, T::Newline) => ctx.skip(2),
//@+     (T::Comma, _) => ctx.skip(1),
//@+     _ => ctx,
//@+ };
//@   why Verus has neither const-generic array construction nor slice patterns: tokens_lookahead::<2>() is [ctx.token().clone(), ctx.skip(1).token().clone()], and a slice pattern over a 2-array is the tuple pattern over its two elements
//@   endrewrite
//@   spec
    requires
        pa_shape(callee), //# C07 assignable_call.pre.callee_shape
    ensures
        r is Ok ==> pa_shape(r->Ok_0.1), //# C07 assignable_call.result_shape
        r is Err ==> r->Err_0.1.len() >= 1, //# C07 assignable_call.an_error_result_is_never_an_empty_list
//@   endspec
//@   loop 1
        invariant pexprs_shape(args@), //# C07 assignable_call.loop1.arguments_have_shape
//@   endloop
//@   ghost entry
    let ghost mode0 = ctx.skip_newlines;
//@   endghost
//@   ghost before
//@| let mut ctx = ctx;
    assert(ctx.skip_newlines == (if primer { mode0 } else { true })); //# C14 assignable_call.arguments_inside_parentheses_skip_newlines_a_prime_call_keeps_the_surrounding_mode
    assert(newlines == mode0); //# C14 assignable_call.the_surrounding_mode_is_remembered
//@   endghost
//@ end
//@ fn sylt-parser/src/parser.rs assignable_dot_or_variant
//@   props C07
//@   attr #[verifier::exec_allows_no_decreases_clause]
//@   ret r
//@   spec
    requires
        pa_shape(accessed), //# C07 assignable_dot_or_variant.pre.shape
    ensures
        r is Ok ==> pa_shape(r->Ok_0.1), //# C07 assignable_dot_or_variant.result_shape
        r is Err ==> r->Err_0.1.len() >= 1, //# C07 assignable_dot_or_variant.an_error_result_is_never_an_empty_list
//@   endspec
//@ end
//@ fn sylt-parser/src/parser.rs assignable_variant
//@   props C07
//@   attr #[verifier::exec_allows_no_decreases_clause]
//@   ret r
//@   spec
    requires
        pa_shape(accessed), //# C07 assignable_variant.pre.shape
    ensures
        r is Ok ==> pa_shape(r->Ok_0.1), //# C07 assignable_variant.result_shape
        r is Err ==> r->Err_0.1.len() >= 1, //# C07 assignable_variant.an_error_result_is_never_an_empty_list
//@   endspec
//@   ghost before
//@| use AssignableKind::Variant;
    assert(pe_shape(value)); //# - assignable_variant.hint1
    assert(pa_shape(accessed)); //# - assignable_variant.hint2
//@   endghost
//@ end
//@ fn sylt-parser/src/parser.rs assignable_dot
//@   props C07
//@   attr #[verifier::exec_allows_no_decreases_clause]
//@   ret r
//@   spec
    requires
        pa_shape(accessed), //# C07 assignable_dot.pre.shape
    ensures
        r is Ok ==> pa_shape(r->Ok_0.1), //# C07 assignable_dot.result_shape
        r is Err ==> r->Err_0.1.len() >= 1, //# C07 assignable_dot.an_error_result_is_never_an_empty_list
//@   endspec
//@ end

// ---- the assignable family (verbatim; only panic-freedom and pass-through) ---------------------
//@ fn sylt-parser/src/parser.rs assignable_index
//@   props C07
//@   attr #[verifier::exec_allows_no_decreases_clause]
//@   ret r
//@   spec
    requires
        pa_shape(indexed), //# C07 assignable_index.pre.shape
    ensures
        r is Ok ==> pa_shape(r->Ok_0.1), //# C07 assignable_index.result_shape_index_is_int_literal
        r is Err ==> r->Err_0.1.len() >= 1, //# C07 assignable_index.an_error_result_is_never_an_empty_list
//@   endspec
//@ end
//@ fn sylt-parser/src/parser.rs sub_assignable
//@   props C07
//@   attr #[verifier::exec_allows_no_decreases_clause]
//@   ret r
//@   spec
    requires
        pa_shape(assignable), //# C07 sub_assignable.pre.shape
    ensures
        r is Ok ==> pa_shape(r->Ok_0.1), //# C07 sub_assignable.result_shape
        r is Err ==> r->Err_0.1.len() >= 1, //# C07 sub_assignable.an_error_result_is_never_an_empty_list
//@   endspec
//@ end
//@ fn sylt-parser/src/parser.rs assignable
//@   props C07
//@   attr #[verifier::exec_allows_no_decreases_clause]
//@   ret r
//@   spec
    ensures
        r is Ok ==> pa_shape(r->Ok_0.1), //# C07 assignable.result_shape
        r is Err ==> r->Err_0.1.len() >= 1, //# C07 assignable.an_error_result_is_never_an_empty_list
//@   endspec
//@ end

// ---- the expression parser -------------------------------------------------------------------
//@ fn sylt-parser/src/expression.rs precedence
//@   props C13
//@   ret r
//@   spec
    ensures
        binop_rank(*token) >= 0 ==> rank(r) == binop_rank(*token), //# C13 precedence.table
        binop_rank(*token) < 0 ==> (rank(r) == 0 || rank(r) >= 7), //# C13 precedence.postfix_tighter_or_none
        rank(r) == (if tok_rank(*token) >= 0 { tok_rank(*token) } else { 0 }), //# C13 precedence.table_with_call_index_and_field_access_on_top
        rank(r) >= 7 ==> is_postfix_tok(*token), //# C13 precedence.only_postfix_above_factor
        // C14 (redundant parentheses): `(f)(x)`, `(l)[i]`, `(b).f` are the call / index / field access on `f`, `l`, `b`
        // wherever they stand, so `(`, `[` and `.` after an operand bind tighter than every binary operator and than the
        // operand level of the unary operators (Factor = 6) - exactly as they do after an unparenthesised name
        (*token is LeftParen || *token is LeftBracket || *token is Dot) ==> rank(r) > 6, //# C14,C13 precedence.a_call_index_or_field_access_after_a_parenthesised_operand_binds_tighter_than_every_operator
//@   endspec
//@ end

//@ fn sylt-parser/src/expression.rs valid_infix
//@   props C13
//@   ret r
//@   spec
    ensures
        r <==> (binop_rank(ctx.tok()) >= 0 || is_postfix_tok(ctx.tok())), //# C13,C14 valid_infix.set
//@   endspec
//@ end

//@ fn sylt-parser/src/expression.rs parse_precedence
//@   props C13 C07
//@   attr #[verifier::exec_allows_no_decreases_clause]
//@   ret r
//@   spec
    ensures
        r is Ok ==> wf(r->Ok_0.1), //# C13 parse_precedence.wf
        r is Ok ==> top_rank(r->Ok_0.1) >= rank(prec), //# C13 parse_precedence.result_at_least_prec
        r is Ok ==> tok_rank(r->Ok_0.0.tok()) < rank(prec), //# C13 parse_precedence.stops_below_prec
        r is Ok ==> tok_rank(r->Ok_0.0.tok()) <= top_rank(r->Ok_0.1), //# C13 parse_precedence.next_not_tighter
        r is Ok ==> pe_shape(r->Ok_0.1), //# C07 parse_precedence.result_shape
        r is Err ==> r->Err_0.1.len() >= 1, //# C07 parse_precedence.an_error_result_is_never_an_empty_list
//@   endspec
//@   loop 1
        invariant
            wf(expr), //# C13 parse_precedence.loop.wf
            pe_shape(expr), //# C07 parse_precedence.loop.shape
            top_rank(expr) >= rank(prec), //# C13 parse_precedence.loop.rank
            tok_rank(ctx.tok()) <= top_rank(expr), //# C13 parse_precedence.loop.next_not_tighter
        ensures
            tok_rank(ctx.tok()) < rank(prec), //# C13 parse_precedence.loop.exit
//@   endloop
//@ end

//@ fn sylt-parser/src/expression.rs value
//@   props C13 C07
//@   ret r
//@   spec
    ensures r is Ok ==> wf(r->Ok_0.1) && top_rank(r->Ok_0.1) == 100, //# C13 value.atom
        r is Ok ==> pe_shape(r->Ok_0.1), //# C07 value.result_shape
        r is Err ==> r->Err_0.1.len() >= 1, //# C07 value.an_error_result_is_never_an_empty_list
//@   endspec
//@ end

//@ fn sylt-parser/src/expression.rs prefix
//@   props C13 C07
//@   attr #[verifier::exec_allows_no_decreases_clause]
//@   ret r
//@   spec
    ensures r is Ok ==> wf(r->Ok_0.1) && top_rank(r->Ok_0.1) == 100, //# C13 prefix.atom
        r is Ok ==> pe_shape(r->Ok_0.1), //# C07 prefix.result_shape
        r is Err ==> r->Err_0.1.len() >= 1, //# C07 prefix.an_error_result_is_never_an_empty_list
//@   endspec
//@ end

//@ fn sylt-parser/src/expression.rs unary
//@   props C13 C07
//@   attr #[verifier::exec_allows_no_decreases_clause]
//@   ret r
//@   spec
    ensures
        r is Ok ==> wf(r->Ok_0.1) && top_rank(r->Ok_0.1) == 100, //# C13 unary.atom_with_tight_operand
        r is Ok ==> (r->Ok_0.1.kind is Neg || r->Ok_0.1.kind is Not), //# C13 unary.node_kind
        r is Ok ==> (ctx.tok() is Minus <==> r->Ok_0.1.kind is Neg), //# C13 unary.minus_is_neg
        r is Ok ==> pe_shape(r->Ok_0.1), //# C07 unary.result_shape
        r is Err ==> r->Err_0.1.len() >= 1, //# C07 unary.an_error_result_is_never_an_empty_list
//@   endspec
//@ end

//@ fn sylt-parser/src/expression.rs arrow_call
//@   props C14 C07
//@   attr #[verifier::exec_allows_no_decreases_clause]
//@   ret r
//@   spec
    requires pe_shape(*lhs), //# C07 arrow_call.pre.lhs_shape
    ensures r is Ok ==> wf(r->Ok_0.1) && top_rank(r->Ok_0.1) == 100, //# C13 arrow_call.atom
        r is Ok ==> pe_shape(r->Ok_0.1), //# C07 arrow_call.result_shape
        r is Err ==> r->Err_0.1.len() >= 1, //# C07 arrow_call.an_error_result_is_never_an_empty_list
//@   endspec
//@   inner prepend_expresion
//@   attr #[verifier::exec_allows_no_decreases_clause]
//@   ret r
//@   spec
        requires pe_shape(lhs), pe_shape(rhs), //# C07 prepend.pre.shape
        ensures r is Ok ==> top_rank(r->Ok_0.1) == 100 && wf(r->Ok_0.1), //# C13 prepend.atom
            r is Ok ==> pe_shape(r->Ok_0.1), //# C07 prepend.result_shape
            r is Ok ==> r->Ok_0.1.span == ctx.span_s() && r->Ok_0.1.ty is None, //# C07 arrow_call.spec.aux1
            r is Ok ==> Some(r->Ok_0.1.kind) == prepend_kind(ctx.span_s(), lhs, rhs), //# C14 prepend.receiver_becomes_the_first_argument_of_the_innermost_call
            r is Err ==> r->Err_0.1.len() >= 1, //# C07 prepend_expresion.an_error_result_is_never_an_empty_list
            r is Err <==> prepend_kind(ctx.span_s(), lhs, rhs) is None, //# C14 prepend.only_calls_can_follow_an_arrow
//@   endspec
//@   endinner
//@   ghost before
//@| let span = ctx.span();
        proof { reveal_with_fuel(pe_shape, 3); reveal_with_fuel(pa_shape, 3); }
//@   endghost
//@ end

//@ fn sylt-parser/src/expression.rs infix
//@   props C13 C07
//@   attr #[verifier::exec_allows_no_decreases_clause]
//@   ret r
//@   spec
    requires
        pe_shape(*lhs), //# C07 infix.pre.lhs_shape
        wf(*lhs), //# C13 infix.pre.lhs_wf
        tok_rank(ctx.tok()) <= top_rank(*lhs), //# C13 infix.pre.op_not_tighter_than_lhs_call_index_and_field_access_only_on_an_atom
    ensures
        r is Ok ==> wf(r->Ok_0.1), //# C13 infix.wf
        r is Ok ==> tok_rank(r->Ok_0.0.tok()) <= top_rank(r->Ok_0.1), //# C13 infix.next_not_tighter
        r is Ok && binop_rank(ctx.tok()) >= 0 ==> top_rank(r->Ok_0.1) == binop_rank(ctx.tok()), //# C13 infix.node_rank_is_operator_rank
        r is Ok && binop_rank(ctx.tok()) < 0 ==> top_rank(r->Ok_0.1) == 100, //# C13 infix.postfix_is_atom
        r is Ok ==> node_matches(ctx.tok(), r->Ok_0.1, *lhs), //# C13 infix.node_matches_operator
        r is Ok && binop_rank(ctx.tok()) >= 0 ==> top_rank(rhs_of(r->Ok_0.1)) > binop_rank(ctx.tok()), //# C13 infix.right_operand_tighter
        r is Ok ==> pe_shape(r->Ok_0.1), //# C07 infix.result_shape
        r is Err ==> r->Err_0.1.len() >= 1, //# C07 infix.an_error_result_is_never_an_empty_list
//@   endspec
//@ end

//@ fn sylt-parser/src/expression.rs grouping_or_tuple
//@   props C13 C07 C14
//@   attr #[verifier::exec_allows_no_decreases_clause]
//@   ret r
//@   spec
    ensures r is Ok ==> wf(r->Ok_0.1) && top_rank(r->Ok_0.1) == 100, //# C13 grouping.atom_inside_wf
        r is Ok ==> pe_shape(r->Ok_0.1), //# C07 grouping_or_tuple.result_shape
        r is Err ==> r->Err_0.1.len() >= 1, //# C07 grouping_or_tuple.an_error_result_is_never_an_empty_list
//@   endspec
//@   rewrite rule:R-bor
//@-                 is_tuple |= matches!(ctx.token(), T::Comma);
//@+                 is_tuple = is_tuple || matches!(ctx.token(), T::Comma);
//@   why Verus has no |= on bool; the right-hand side is a pure pattern test, so || is the same computation
//@   endrewrite
//@   ghost before-loop 1
        // the group opens with `,` or `)`: read off the token stream, not off the code's own flag
        let ghost lead = ctx.tok() is Comma || ctx.tok() is RightParen;
//@   endghost
//@   ghost before
//@| if is_tuple {
                assert(exprs.len() == 1 && !lead && !(ctx.tok() is Comma) ==> !is_tuple); //# C14 grouping.one_expression_without_a_comma_is_a_parenthesis_not_a_tuple
//@   endghost
//@   loop 1
        invariant_except_break
            !is_tuple ==> exprs.len() == 0 && !(ctx.tok() is Comma) && !(ctx.tok() is RightParen), //# C07 grouping.loop.nothing_parsed_yet
        invariant
            // C14 (redundant parentheses): the group is a tuple only if it opened with `,` / `)` or a comma followed an element
            is_tuple ==> lead || exprs.len() >= 1, //# C14 grouping.loop.a_tuple_needs_a_comma_or_an_empty_group
            wf_all(exprs@), //# C13 grouping.loop.members_wf
            forall|i: int| 0 <= i < exprs@.len() ==> pe_shape(#[trigger] exprs@[i]), //# C07 grouping.loop.members_shape
        ensures
            !is_tuple ==> exprs.len() == 1 || !(ctx.tok() is RightParen), //# C07 grouping.loop.exit_one_element_or_error
//@   endloop
//@ end

//@ fn sylt-parser/src/expression.rs list
//@   props C13 C07
//@   attr #[verifier::exec_allows_no_decreases_clause]
//@   ret r
//@   spec
    ensures r is Ok ==> wf(r->Ok_0.1) && top_rank(r->Ok_0.1) == 100, //# C13 list.atom_inside_wf
        r is Ok ==> pe_shape(r->Ok_0.1), //# C07 list.result_shape
        r is Err ==> r->Err_0.1.len() >= 1, //# C07 list.an_error_result_is_never_an_empty_list
//@   endspec
//@   loop 1
        invariant wf_all(exprs@), //# C13 list.loop.members_wf
            forall|i: int| 0 <= i < exprs@.len() ==> pe_shape(#[trigger] exprs@[i]), //# C07 list.loop.members_shape
//@   endloop
//@ end

//@ fn sylt-parser/src/expression.rs expression
//@   props C13 C07
//@   attr #[verifier::exec_allows_no_decreases_clause]
//@   ret r
//@   spec
    ensures
        r is Ok ==> wf(r->Ok_0.1), //# C13 expression.wf
        r is Ok ==> binop_rank(r->Ok_0.0.tok()) < 0, //# C13 expression.consumes_all_operators
        r is Ok ==> pe_shape(r->Ok_0.1), //# C07 expression.result_shape
        r is Err ==> r->Err_0.1.len() >= 1, //# C07 expression.an_error_result_is_never_an_empty_list
//@   endspec
//@ end

} // verus!
fn main() {}
