//@ unit U-RESOLVE
// Name resolution: innermost-first lookup and the scope stack discipline (C09, C02), no declaration
// statement below the top level (C07), arrow-call desugaring (C14), constants (C04).
use vstd::prelude::*;
use vstd::std_specs::cmp::*;
use std::collections::{BTreeMap, HashMap};
verus! {

pub mod common {
    use super::*;
//@ include common/base_types.tpl
}

pub mod sylt_parser {
    use super::*;
    use super::common::*;
    type Alias = Identifier;
//@ include common/parser_ast.tpl
    pub mod expression { pub use super::{CaseBranch, IfBranch, ComparisonKind}; }
}

pub mod name_resolution {
    use super::*;
    use super::common::*;
    use super::sylt_parser;
    use super::sylt_parser::{
        expression::CaseBranch as ParserCaseBranch, expression::IfBranch as ParserIfBranch,
        Assignable as ParserAssignable, Expression as ParserExpression,
        Statement as ParserStatement, Type as ParserType, TypeAssignable as ParserTypeAssignable,
        AST as ParserAST,
    };
//@ include common/resolved_ast.tpl
//@ type sylt-compiler/src/name_resolution.rs type ResolveResult
//@ type sylt-compiler/src/name_resolution.rs enum Name eq=none
//@ type sylt-compiler/src/name_resolution.rs struct Resolver

// ---- D-msg: opaque errors that remember their span; `format!` gives an opaque string -----------
#[verifier::external_body]
fn opaque_error(span: Span) -> (r: Error) ensures r.span() == span { unimplemented!() }
#[verifier::external_body]
fn opaque_string() -> String { unimplemented!() }
macro_rules! format { ($($t:tt)*) => { opaque_string() }; }
macro_rules! resolution_error {
    ($self:expr, $span:expr, $( $msg:expr ),* ) => { opaque_error($span.clone()) };
}
macro_rules! raise_resolution_error {
    ($self:expr, $span:expr, $( $msg:expr ),* ) => { return Err(vec![resolution_error!($self, $span, $( $msg ),*)]) };
}
// D-msg: `unreachable!(..)` with a message becomes the message-free obligation `false`
macro_rules! unreachable { ($($t:tt)*) => { return vstd::pervasive::unreached() }; }
pub assume_specification [ <String as PartialEq<str>>::eq ] (a: &String, b: &str) -> (r: bool) ensures r == (a@ == b@);

// ================= specification vocabulary =======================================================
spec fn is_prefix<T>(a: Seq<T>, b: Seq<T>) -> bool { a.len() <= b.len() && b.subrange(0, a.len() as int) =~= a }

/// what a name refers to on a scope stack: the LAST (innermost) entry carrying it
spec fn innermost(stack: Seq<(String, Ref)>, name: Seq<char>) -> Option<Ref> decreases stack.len() {
    if stack.len() == 0 { None }
    else if stack.last().0@ == name { Some(stack.last().1) }
    else { innermost(stack.drop_last(), name) }
}
proof fn lemma_innermost_skip(stack: Seq<(String, Ref)>, name: Seq<char>, k: int)
    requires 0 <= k <= stack.len(), forall|j: int| k <= j < stack.len() ==> (#[trigger] stack[j]).0@ != name,
    ensures innermost(stack, name) == innermost(stack.take(k), name)
    decreases stack.len() - k
{
    if k < stack.len() {
        assert(stack.drop_last().take(k) =~= stack.take(k));
        lemma_innermost_skip(stack.drop_last(), name, k);
    } else { assert(stack.take(k) =~= stack); }
}

proof fn lemma_innermost_in_stack(stack: Seq<(String, Ref)>, name: Seq<char>)
    requires innermost(stack, name) is Some,
    ensures exists|i: int| 0 <= i < stack.len() && (#[trigger] stack[i]).1 == innermost(stack, name)->Some_0,
    decreases stack.len()
{
    if stack.len() > 0 {
        if stack.last().0@ == name {
            assert(stack[stack.len() - 1].1 == innermost(stack, name)->Some_0);
        } else {
            lemma_innermost_in_stack(stack.drop_last(), name);
            let i = choose|i: int| 0 <= i < stack.drop_last().len() && (#[trigger] stack.drop_last()[i]).1 == innermost(stack.drop_last(), name)->Some_0;
            assert(stack[i].1 == innermost(stack, name)->Some_0);
        }
    }
}
/// every parameter variable of a function literal was created as a constant
spec fn params_const(ps: Seq<(String, Ref, Span, Type)>, vars: Seq<Var>) -> bool {
    forall|k: int| 0 <= k < ps.len() ==> ((#[trigger] ps[k]).1 as int) < vars.len() && vars[ps[k].1 as int].kind is Const
}
/// the type of every parameter is one the type checker can translate
spec fn params_tys(ps: Seq<(String, Ref, Span, Type)>, n: int) -> bool {
    forall|k: int| 0 <= k < ps.len() ==> rt_up((#[trigger] ps[k]).3, n)
}
/// every field / variant type of a declaration is one the type checker can translate
spec fn fields_tys(m: Map<String, (Span, Type)>, n: int) -> bool { forall|k: String| #[trigger] m.contains_key(k) ==> rt_up(m[k].1, n) }
/// assumption A-hash-identifier: Hash and Eq of Identifier are a lawful hash-table key. True since fix 3d45733
/// (both look at the name only; before it the derived Hash also hashed the span - see DESIGN 0.5)
#[verifier::external_body]
proof fn axiom_identifier_hash_key() ensures vstd::std_specs::hash::obeys_key_model::<Identifier>() {}
#[verifier::external_body]
proof fn axiom_string_hash_key() ensures vstd::std_specs::hash::obeys_key_model::<String>() {}
spec fn fields_nodecl(fs: Seq<(String, Expression)>) -> bool { forall|i: int| 0 <= i < fs.len() ==> e_nodecl((#[trigger] fs[i]).1) }
spec fn fields_up(fs: Seq<(String, Expression)>, n: int) -> bool { forall|i: int| 0 <= i < fs.len() ==> e_up((#[trigger] fs[i]).1, n) }
spec fn all_nodecl(ss: Seq<Statement>) -> bool { forall|i: int| 0 <= i < ss.len() ==> s_nodecl(#[trigger] ss[i]) }

/// content of the global tables (uninterpreted: lookup_global is outside the unit)
uninterp spec fn global_table(namespaces: HashMap<FileOrLib, HashMap<String, Name>>, namespace_to_file: HashMap<NamespaceID, FileOrLib>,
                              namespace_id: usize, name: Seq<char>) -> Option<Name>;

/// which namespace a qualifier `a.b.` denotes (written from the property: `a` is looked up in the
/// current file's table, every further name in the table of the namespace found so far; the result is
/// the id the resolver has recorded for that file)
spec fn ns_table(namespaces: HashMap<FileOrLib, HashMap<String, Name>>, namespace_to_file: HashMap<NamespaceID, FileOrLib>,
                 file_to_namespace: HashMap<FileOrLib, NamespaceID>, namespace_id: usize, a: ParserAssignable) -> Option<usize> decreases a {
    match a.kind {
        sylt_parser::AssignableKind::Read(ident) => ns_step(namespaces, namespace_to_file, file_to_namespace, namespace_id, ident.name@),
        sylt_parser::AssignableKind::Access(prev, ident) => match ns_table(namespaces, namespace_to_file, file_to_namespace, namespace_id, *prev) {
            Some(inner) => ns_step(namespaces, namespace_to_file, file_to_namespace, inner, ident.name@),
            None => None,
        },
        _ => None,
    }
}
/// one step: `name` names a namespace in the table of `namespace_id`
spec fn ns_step(namespaces: HashMap<FileOrLib, HashMap<String, Name>>, namespace_to_file: HashMap<NamespaceID, FileOrLib>,
                file_to_namespace: HashMap<FileOrLib, NamespaceID>, namespace_id: usize, name: Seq<char>) -> Option<usize> {
    match global_table(namespaces, namespace_to_file, namespace_id, name) {
        Some(Name::Namespace(f, _)) => if file_to_namespace@.contains_key(f) { Some(file_to_namespace@[f]) } else { None },
        _ => None,
    }
}
/// assumption A-hash-fileorlib: the derived Hash / Eq of FileOrLib are a lawful hash-table key
#[verifier::external_body]
proof fn axiom_fileorlib_hash_key() ensures vstd::std_specs::hash::obeys_key_model::<FileOrLib>() {}


// ---- C14: the resolver's output is the DESUGARED form of the parse tree ----------------------------
// rel_e(pe, e): `e` has the shape of `pe` after desugaring - an arrow call `x -> f(args)` is the call
// `f(x, args)`, a parenthesised expression is the expression itself; variable ids and spans are not
// compared, statement lists inside if / case / function bodies are not related (leaf).
spec fn binop_of(k: sylt_parser::ExpressionKind) -> Option<BinOp> {
    match k {
        sylt_parser::ExpressionKind::Add(..) => Some(BinOp::Add),
        sylt_parser::ExpressionKind::Sub(..) => Some(BinOp::Sub),
        sylt_parser::ExpressionKind::Mul(..) => Some(BinOp::Mul),
        sylt_parser::ExpressionKind::Div(..) => Some(BinOp::Div),
        sylt_parser::ExpressionKind::AssertEq(..) => Some(BinOp::AssertEq),
        sylt_parser::ExpressionKind::And(..) => Some(BinOp::And),
        sylt_parser::ExpressionKind::Or(..) => Some(BinOp::Or),
        sylt_parser::ExpressionKind::Comparison(_, c, _) => Some(match c {
            sylt_parser::ComparisonKind::Equals => BinOp::Equals,
            sylt_parser::ComparisonKind::NotEquals => BinOp::NotEquals,
            sylt_parser::ComparisonKind::Greater => BinOp::Greater,
            sylt_parser::ComparisonKind::GreaterEqual => BinOp::GreaterEqual,
            sylt_parser::ComparisonKind::Less => BinOp::Less,
            sylt_parser::ComparisonKind::LessEqual => BinOp::LessEqual,
        }),
        _ => None,
    }
}
spec fn rel_e(pe: ParserExpression, e: Expression) -> bool decreases pe {
    match pe.kind {
        sylt_parser::ExpressionKind::Get(a) => rel_a(a, e),
        sylt_parser::ExpressionKind::Add(x, y) | sylt_parser::ExpressionKind::Sub(x, y) | sylt_parser::ExpressionKind::Mul(x, y)
        | sylt_parser::ExpressionKind::Div(x, y) | sylt_parser::ExpressionKind::AssertEq(x, y) | sylt_parser::ExpressionKind::And(x, y)
        | sylt_parser::ExpressionKind::Or(x, y) =>
            e is BinOp && Some(e->BinOp_op) == binop_of(pe.kind) && rel_e(*x, *e->BinOp_a) && rel_e(*y, *e->BinOp_b),
        sylt_parser::ExpressionKind::Comparison(x, _, y) =>
            e is BinOp && Some(e->BinOp_op) == binop_of(pe.kind) && rel_e(*x, *e->BinOp_a) && rel_e(*y, *e->BinOp_b),
        sylt_parser::ExpressionKind::Neg(x) => e is UniOp && e->UniOp_op is Neg && rel_e(*x, *e->UniOp_a),
        sylt_parser::ExpressionKind::Not(x) => e is UniOp && e->UniOp_op is Not && rel_e(*x, *e->UniOp_a),
        sylt_parser::ExpressionKind::Parenthesis(x) => rel_e(*x, e),
        sylt_parser::ExpressionKind::If(branches) => e is If && e->If_branches@.len() == branches@.len()
            && forall|i: int| 0 <= i < branches@.len() ==> rel_ib(#[trigger] branches@[i], e->If_branches@[i]),
        sylt_parser::ExpressionKind::Case { to_match, branches, fall_through } => e is Case && rel_e(*to_match, *e->Case_to_match)
            && e->Case_branches@.len() == branches@.len() && (fall_through is Some <==> e->Case_fall_through is Some),
        sylt_parser::ExpressionKind::Function { params, pure, .. } => e is Function && e->Function_pure == pure && e->Function_params@.len() == params@.len(),
        sylt_parser::ExpressionKind::Blob { fields, .. } => e is Blob && e->Blob_fields@.len() == fields@.len()
            && forall|i: int| 0 <= i < fields@.len() ==> (#[trigger] e->Blob_fields@[i]).0 == fields@[i].0 && rel_e(fields@[i].1, e->Blob_fields@[i].1),
        sylt_parser::ExpressionKind::Tuple(xs) => e is Collection && e->Collection_collection is Tuple && e->Collection_values@.len() == xs@.len()
            && forall|i: int| 0 <= i < xs@.len() ==> rel_e(#[trigger] xs@[i], e->Collection_values@[i]),
        sylt_parser::ExpressionKind::List(xs) => e is Collection && e->Collection_collection is List && e->Collection_values@.len() == xs@.len()
            && forall|i: int| 0 <= i < xs@.len() ==> rel_e(#[trigger] xs@[i], e->Collection_values@[i]),
        sylt_parser::ExpressionKind::Float(f) => e is Float && e->Float_0 == f,
        sylt_parser::ExpressionKind::Int(i) => e is Int && e->Int_0 == i,
        sylt_parser::ExpressionKind::Str(st) => e is Str && e->Str_0 == st,
        sylt_parser::ExpressionKind::Bool(b) => e is Bool && e->Bool_0 == b,
        sylt_parser::ExpressionKind::Nil => e is Nil,
    }
}
spec fn rel_ib(pb: ParserIfBranch, b: IfBranch) -> bool decreases pb {
    match pb.condition { Some(c) => b.condition is Some && rel_e(c, b.condition->Some_0), None => b.condition is None }
}
spec fn rel_a(a: ParserAssignable, e: Expression) -> bool decreases a {
    match a.kind {
        sylt_parser::AssignableKind::Read(_) => e is Read,
        sylt_parser::AssignableKind::Variant { variant, value, .. } => e is Variant && e->Variant_variant == variant.name && rel_e(*value, *e->Variant_value),
        sylt_parser::AssignableKind::Call(f, args) => e is Call && rel_a(*f, *e->Call_function) && e->Call_args@.len() == args@.len()
            && forall|i: int| 0 <= i < args@.len() ==> rel_e(#[trigger] args@[i], e->Call_args@[i]),
        // `x -> f(args)` IS the call `f(x, args)`
        sylt_parser::AssignableKind::ArrowCall(x, f, args) => e is Call && rel_a(*f, *e->Call_function) && e->Call_args@.len() == args@.len() + 1
            && rel_e(*x, e->Call_args@[0])
            && forall|i: int| 0 <= i < args@.len() ==> rel_e(#[trigger] args@[i], e->Call_args@[i + 1]),
        sylt_parser::AssignableKind::Access(a2, ident) => e is Read || (e is BlobAccess && e->BlobAccess_field == ident.name && rel_a(*a2, *e->BlobAccess_value)),
        sylt_parser::AssignableKind::Index(a2, idx) => e is Index && rel_a(*a2, *e->Index_value) && rel_e(*idx, *e->Index_index),
        sylt_parser::AssignableKind::Expression(x) => rel_e(*x, e),
    }
}

/// R-helper of namespace_list: `opt.map(|f| table.get(f).cloned()).flatten()`
trait AndThenFile: Sized {
    spec fn file_of(self) -> Option<FileOrLib>;
    fn and_then_file(self, table: &HashMap<FileOrLib, NamespaceID>) -> (r: Option<usize>)
        requires vstd::std_specs::hash::obeys_key_model::<FileOrLib>(),
        ensures r == (match self.file_of() { Some(f) => if table@.contains_key(f) { Some(table@[f]) } else { None }, None => None });
}
impl<'a> AndThenFile for Option<&'a FileOrLib> {
    spec fn file_of(self) -> Option<FileOrLib> { match self { Some(f) => Some(*f), None => None } }
    fn and_then_file(self, table: &HashMap<FileOrLib, NamespaceID>) -> (r: Option<usize>)
    {
        broadcast use vstd::std_specs::hash::group_hash_axioms;
        match self { Some(f) => match table.get(f) { Some(n) => Some(*n), None => None }, None => None }
    }
}
impl Resolver {
    /// the global table, as far as the functions under contract are concerned (lookup_global is
    /// outside: it indexes two HashMaps keyed by placeholder types)
    spec fn global_of(&self, namespace_id: usize, name: Seq<char>) -> Option<Name> {
        global_table(self.namespaces, self.namespace_to_file, namespace_id, name)
    }

    /// every variable id the resolver can hand out exists: ids on the scope stack and ids in the
    /// global tables are indices of the variable table
    spec fn inv(&self) -> bool {
        &&& forall|i: int| 0 <= i < self.stack@.len() ==> ((#[trigger] self.stack@[i]).1 as int) < self.variables@.len()
        &&& forall|ns: usize, nm: Seq<char>| (#[trigger] global_table(self.namespaces, self.namespace_to_file, ns, nm)) is Some
                && global_table(self.namespaces, self.namespace_to_file, ns, nm)->Some_0 is Name
                ==> (global_table(self.namespaces, self.namespace_to_file, ns, nm)->Some_0->Name_0 as int) < self.variables@.len()
    }

    spec fn ns_of(&self, namespace_id: usize, a: ParserAssignable) -> Option<usize> {
        ns_table(self.namespaces, self.namespace_to_file, self.file_to_namespace, namespace_id, a)
    }

    /// frame shared by all resolving functions: the global tables are never touched, variables are
    /// only appended
    spec fn frame(&self, old: &Resolver) -> bool {
        &&& self.namespaces == old.namespaces
        &&& self.namespace_to_file == old.namespace_to_file
        &&& self.file_to_namespace == old.file_to_namespace
        &&& is_prefix(old.variables@, self.variables@)
    }

// ---- outside the unit (assumed contracts; signatures from the repository) -----------------------
//@ fn sylt-compiler/src/name_resolution.rs lookup_global
//@   in Resolver
//@   mode assumed
//@   ret r
//@   spec
        ensures (r is Some) == (self.global_of(namespace_id, name@) is Some),
            r is Some ==> *r->Some_0 == self.global_of(namespace_id, name@)->Some_0,
//@   endspec
//@ end
//@ fn sylt-compiler/src/name_resolution.rs find_similar_name
//@   in Resolver
//@   mode assumed
//@ end
//@ fn sylt-compiler/src/name_resolution.rs new
//@   in Resolver
//@   mode assumed
//@   ret r
//@   spec
        // assumed: a new resolver has an empty scope stack, no variables and empty global tables
        ensures r.stack@.len() == 0, r.variables@.len() == 0, r.inv(),
//@   endspec
//@ end
//@ fn sylt-compiler/src/name_resolution.rs insert_namespace_and_add_definitions
//@   in Resolver
//@   mode assumed
//@   ret r
//@   spec
        // assumed: the global pass only appends variables, registers ids of variables it created, and
        // never touches the scope stack
        requires old(self).inv(),
        ensures final(self).inv(), final(self).stack@ == old(self).stack@, is_prefix(old(self).variables@, final(self).variables@),
            r is Err ==> r->Err_0.len() >= 1,
//@   endspec
//@ end
//@ fn sylt-compiler/src/name_resolution.rs resolve_global_variables
//@   in Resolver
//@   mode assumed
//@   ret r
//@   spec
        // assumed: the import pass copies entries between the global tables, creates no variable and never
        // touches the scope stack
        requires old(self).inv(),
        ensures final(self).inv(), final(self).stack@ == old(self).stack@, final(self).variables@ == old(self).variables@,
            r is Err ==> r->Err_0.len() >= 1,
//@   endspec
//@ end
//@ fn sylt-compiler/src/name_resolution.rs add_help_no_span
//@   in Resolver
//@   mode assumed
//@   ret r
//@   spec
        ensures r.span() == err.span(),
//@   endspec
//@ end
//@ fn sylt-compiler/src/name_resolution.rs namespace_list
//@   in Resolver
//@   props C09 C07
//@   attr #[verifier::exec_allows_no_decreases_clause]
//@   ret r
//@   rewrite equivalent
//@- match self
//@-     .namespace_list(namespace_id, prev)
//@-     .map(|new_namespace| self.lookup_global(new_namespace, &ident.name))
//@-     .flatten()
//@- {
//@+ match (match self.namespace_list(namespace_id, prev) { Some(new_namespace) => self.lookup_global(new_namespace, &ident.name), None => None })
//@+ {
//@   why Option::map followed by flatten is this match
//@   endrewrite
//@   rewrite equivalent
//@- .map(|file_or_lib| self.file_to_namespace.get(file_or_lib).cloned())
//@- .flatten()
//@+ .and_then_file(&self.file_to_namespace)
//@   why Option::map followed by flatten, with get(..).cloned() inside: written as the helper and_then_file below (a match and a copy of the usize)
//@   endrewrite
//@   spec
        ensures r == self.ns_of(namespace_id, *assignable), //# C09 namespace_list.every_step_of_a_qualifier_is_looked_up_in_the_namespace_found_so_far
//@   endspec
//@   ghost entry
        broadcast use vstd::std_specs::hash::group_hash_axioms;
        proof { axiom_fileorlib_hash_key(); }
//@   endghost
//@ end
//@ fn sylt-compiler/src/name_resolution.rs namespace_type_list
//@   in Resolver
//@   mode assumed
//@   ret r
//@   spec
        // assumed (read off the body: every failure is one raise_resolution_error!)
        ensures r is Err ==> r->Err_0.len() >= 1,
//@   endspec
//@ end
//@ fn sylt-compiler/src/name_resolution.rs type_vec
//@   in Resolver
//@   props C07
//@   attr #[verifier::exec_allows_no_decreases_clause]
//@   attr #[verifier::loop_isolation(false)]
//@   ret r
//@   spec
        requires self.inv(), //# C07 type_vec.pre.ids_in_range
            forall|i: int| 0 <= i < parser_tys@.len() ==> sylt_parser::pt_ok(#[trigger] parser_tys@[i]), //# C07 type_vec.pre.written_types_are_translatable
        ensures r is Ok ==> forall|i: int| 0 <= i < r->Ok_0@.len() ==> rt_up(#[trigger] r->Ok_0@[i], self.variables@.len() as int), //# C07 type_vec.resolved_types_are_translatable
            r is Err ==> r->Err_0.len() >= 1, //# C07 type_vec.an_error_result_is_never_an_empty_list
//@   endspec
//@   loop 1 binder it
            invariant
                it.seq().len() == parser_tys@.len(), forall|k: int| 0 <= k < parser_tys@.len() ==> *(#[trigger] it.seq()[k]) == parser_tys@[k], //# - type_vec.loop1.aux1
                forall|i: int| 0 <= i < tys@.len() ==> rt_up(#[trigger] tys@[i], self.variables@.len() as int), //# C07 type_vec.loop1.so_far_translatable
//@   endloop
//@ end
//@ fn sylt-compiler/src/name_resolution.rs ty
//@   in Resolver
//@   props C07
//@   attr #[verifier::exec_allows_no_decreases_clause]
//@   ret r
//@   spec
        requires self.inv(), //# C07 ty.pre.ids_in_range
            sylt_parser::pt_ok(*ty), //# C07 ty.pre.written_type_is_translatable
        ensures r is Ok ==> rt_up(r->Ok_0, self.variables@.len() as int), //# C07 ty.resolved_type_is_translatable
            r is Err ==> r->Err_0.len() >= 1, //# C07 ty.an_error_result_is_never_an_empty_list
//@   endspec
//@   ghost entry
        let ghost n = self.variables@.len() as int;
        broadcast use group_rt_up;
//@   endghost
//@ end

// ---- lookup: innermost binding first, then the file's globals (C09) ------------------------------
//@ fn sylt-compiler/src/name_resolution.rs lookup
//@   in Resolver
//@   props C09 C07
//@   ret r
//@   rewrite rule:R-deref
//@- if var_name == name {
//@+ if *var_name == *name {
//@   why vstd has no specification for the reference-level blanket impl of == on (&String, &str); dereferencing both sides calls String: PartialEq<str> directly, which is what the blanket impl does
//@   endrewrite
//@   spec
        requires
            self.inv(), //# C07 lookup.pre.ids_in_range
        ensures
            innermost(self.stack@, name@) is Some ==> r == Ok::<Ref, Vec<Error>>(innermost(self.stack@, name@)->Some_0), //# C09,C02 lookup.innermost_local_binding_wins
            innermost(self.stack@, name@) is None ==> (match self.global_of(span.file_id, name@) {
                Some(Name::Name(v)) => r == Ok::<Ref, Vec<Error>>(v),
                _ => r is Err && r->Err_0.len() == 1 && r->Err_0[0].span() == span,
            }), //# C09 lookup.then_file_globals_else_error_at_use
            r is Ok ==> (r->Ok_0 as int) < self.variables@.len(), //# C07,C09 lookup.result_id_in_range
            r is Err ==> r->Err_0.len() >= 1, //# C07 lookup.an_error_result_is_never_an_empty_list
//@   endspec
//@   ghost entry
        proof { if innermost(self.stack@, name@) is Some { lemma_innermost_in_stack(self.stack@, name@); } }
//@   endghost
//@   loop 1 binder it
            invariant
                self.inv(), it.seq().len() == self.stack@.len(), //# C09,C02 lookup.loop.scans_the_whole_stack
                forall|j: int| 0 <= j < self.stack@.len() ==> *(#[trigger] it.seq()[j]) == self.stack@[self.stack@.len() - 1 - j], //# C09,C02 lookup.loop.scans_innermost_first
                forall|i: int| self.stack@.len() - it.index@ <= i < self.stack@.len() ==> (#[trigger] self.stack@[i]).0@ != name@, //# C09 lookup.loop.no_inner_match_skipped
//@   endloop
//@   ghost before
//@| return Ok(*var_id);
                proof {
                    let k = self.stack@.len() - it.index@;
                    lemma_innermost_skip(self.stack@, name@, k as int);
                    assert(self.stack@.take(k as int).last() == self.stack@[k - 1]);
                    assert((self.stack@[k - 1].1 as int) < self.variables@.len());
                }
//@   endghost
//@   ghost after-loop 1
        proof { lemma_innermost_skip(self.stack@, name@, 0); }
//@   endghost
//@ end

//@ fn sylt-compiler/src/name_resolution.rs ty_assignable
//@   in Resolver
//@   props C07
//@   ret r
//@   spec
        requires
            self.inv(), //# C07 ty_assignable.pre.ids_in_range
        ensures r is Ok ==> r->Ok_0 is UserType, //# C07 ty_assignable.returns_user_type
            r is Ok ==> (r->Ok_0->UserType_0 as int) < self.variables@.len(), //# C07 ty_assignable.result_id_in_range
            r is Err ==> r->Err_0.len() >= 1, //# C07 ty_assignable.an_error_result_is_never_an_empty_list
//@   endspec
//@ end

//@ fn sylt-compiler/src/name_resolution.rs new_var
//@   in Resolver
//@   props C09 C07
//@   ret r
//@   spec
        requires
            old(self).inv(), //# C07 new_var.pre.ids_in_range

        ensures
            r == old(self).variables@.len(), //# C09 new_var.fresh_id
            final(self).variables@.len() == old(self).variables@.len() + 1, //# C07 new_var.spec.aux1
            is_prefix(old(self).variables@, final(self).variables@), //# C09 new_var.appends_one
            final(self).variables@[r as int].kind == kind && final(self).variables@[r as int].id == r && !final(self).variables@[r as int].is_global, //# C04 new_var.records_kind
            final(self).stack == old(self).stack, //# C09 new_var.stack_untouched
            final(self).frame(old(self)), //# C09 new_var.frame_globals_untouched_variables_only_grow
            final(self).inv(), //# C07 new_var.keeps_ids_in_range
//@   endspec
//@ end

//@ fn sylt-compiler/src/name_resolution.rs push_var
//@   in Resolver
//@   props C09 C07
//@   ret r
//@   spec
        requires
            old(self).inv(), //# C07 push_var.pre.ids_in_range

        ensures
            r == old(self).variables@.len(), //# C07 push_var.spec.aux1
            final(self).variables@.len() == old(self).variables@.len() + 1, //# C07 push_var.spec.aux2
            final(self).variables@[r as int].kind == kind, //# C04 push_var.records_kind
            final(self).stack@ == old(self).stack@.push((ident.name, r)), //# C09 push_var.pushes_exactly_one_binding
            final(self).frame(old(self)), //# C09 push_var.frame_globals_untouched_variables_only_grow
            final(self).inv(), //# C07 push_var.keeps_ids_in_range
//@   endspec
//@ end

//@ fn sylt-compiler/src/name_resolution.rs assignable
//@   in Resolver
//@   props C09 C02 C07 C14
//@   attr #[verifier::exec_allows_no_decreases_clause]
//@   attr #[verifier::loop_isolation(false)]
//@   ret r
//@   spec
        requires
            sylt_parser::pa_shape(*assignable), //# C07 assignable.pre.parser_tree_shape

            old(self).inv(), //# C07 assignable.pre.ids_in_range
            old(self).stack@.len() > 0, //# C09 assignable.pre.resolved_inside_a_scope

        ensures
            r is Ok ==> final(self).stack@ == old(self).stack@, //# C09,C02 assignable.scope_restored
            is_prefix(old(self).stack@, final(self).stack@), //# C09 assignable.never_pops_callers_bindings
            final(self).frame(old(self)), //# C09 assignable.frame_globals_untouched_variables_only_grow
            r is Ok && old(self).stack@.len() > 0 ==> e_nodecl(r->Ok_0), //# C07 assignable.no_nested_declaration
            r is Ok && assignable.kind is ArrowCall ==> r->Ok_0 is Call
                && r->Ok_0->Call_args@.len() == assignable.kind->ArrowCall_2@.len() + 1, //# C14 assignable.arrow_call_becomes_call_with_extra_first_argument
            final(self).inv(), //# C07 assignable.keeps_ids_in_range
            r is Ok ==> e_up(r->Ok_0, final(self).variables@.len() as int), //# C07,C09 assignable.result_ids_in_range
            r is Ok ==> e_shape(r->Ok_0), //# C07 assignable.result_shape
            r is Ok && assignable.kind is Access && old(self).ns_of(assignable.span.file_id, *assignable.kind->Access_0) is Some ==>
                r->Ok_0 is Read && old(self).global_of(old(self).ns_of(assignable.span.file_id, *assignable.kind->Access_0)->Some_0, assignable.kind->Access_1.name@)
                    == Some(Name::Name(r->Ok_0->Read_var)), //# C09 assignable.qualified_name_is_the_module_global_never_a_local
            r is Ok ==> rel_a(*assignable, r->Ok_0), //# C14 assignable.result_is_the_desugared_tree
            r is Err ==> r->Err_0.len() >= 1, //# C07 assignable.an_error_result_is_never_an_empty_list
//@   endspec
//@   ghost entry
        broadcast use group_up;
//@   endghost
//@   loop 1 binder it1
                invariant self.stack@ == old(self).stack@, self.frame(old(self)), //# C09,C02 assignable.loop1.scope_stack_between_iterations
                    old(self).stack@.len() > 0 ==> forall|i: int| 0 <= i < args@.len() ==> e_nodecl(#[trigger] args@[i]), //# C07 assignable.loop1.aux2
                    self.inv(), e_up(*function, self.variables@.len() as int), forall|i: int| 0 <= i < args@.len() ==> e_up(#[trigger] args@[i], self.variables@.len() as int), //# C07,C09 assignable.loop1.aux3
                    forall|i: int| 0 <= i < args@.len() ==> e_shape(#[trigger] args@[i]), //# C07 assignable.loop1.aux4
                    it1.seq().len() == parser_args@.len(), args@.len() == it1.index@, //# - assignable.loop1.aux5
                    forall|k: int| 0 <= k < parser_args@.len() ==> *(#[trigger] it1.seq()[k]) == parser_args@[k], //# - assignable.loop1.aux6
                    forall|k: int| 0 <= k < args@.len() ==> rel_e(#[trigger] parser_args@[k], args@[k]), //# C14 assignable.loop1.call_arguments_in_order
//@   endloop
//@   loop 2 binder it2
                invariant self.stack@ == old(self).stack@, self.frame(old(self)), //# C09,C02 assignable.loop2.scope_stack_between_iterations
                    args@.len() == it2.index@ + 1, it2.seq().len() == assignable.kind->ArrowCall_2@.len(), //# - assignable.loop2.aux2
                    old(self).stack@.len() > 0 ==> forall|i: int| 0 <= i < args@.len() ==> e_nodecl(#[trigger] args@[i]), //# C07 assignable.loop2.aux3
                    self.inv(), e_up(*function, self.variables@.len() as int), forall|i: int| 0 <= i < args@.len() ==> e_up(#[trigger] args@[i], self.variables@.len() as int), //# C07,C09 assignable.loop2.aux4
                    forall|i: int| 0 <= i < args@.len() ==> e_shape(#[trigger] args@[i]), //# C07 assignable.loop2.aux5
                    forall|k: int| 0 <= k < parser_args@.len() ==> *(#[trigger] it2.seq()[k]) == parser_args@[k], //# - assignable.loop2.aux6
                    rel_e(xp, args@[0]), //# C14 assignable.loop2.aux7
                    forall|k: int| 0 <= k < it2.index@ ==> rel_e(#[trigger] parser_args@[k], args@[k + 1]), //# C14 assignable.loop2.arrow_call_arguments_follow_the_receiver
//@   endloop
//@   ghost before
//@| let extra_arg = self.expression(extra_arg)?;
                let ghost xp: ParserExpression = **extra_arg;
//@   endghost
//@ end

//@ fn sylt-compiler/src/name_resolution.rs collection
//@   in Resolver
//@   props C09 C02 C07 C14
//@   attr #[verifier::exec_allows_no_decreases_clause]
//@   attr #[verifier::loop_isolation(false)]
//@   ret r
//@   spec
        requires
            forall|i: int| 0 <= i < expr@.len() ==> sylt_parser::pe_shape(#[trigger] expr@[i]), //# C07 collection.pre.parser_tree_shape

            old(self).inv(), //# C07 collection.pre.ids_in_range
            old(self).stack@.len() > 0, //# C09 collection.pre.resolved_inside_a_scope

        ensures
            r is Ok ==> final(self).stack@ == old(self).stack@, //# C09,C02 collection.scope_restored
            is_prefix(old(self).stack@, final(self).stack@), //# C09,C02 collection.never_pops_callers_bindings
            final(self).frame(old(self)), //# C09 collection.frame_globals_untouched_variables_only_grow
            r is Ok && old(self).stack@.len() > 0 ==> e_nodecl(r->Ok_0), //# C07 collection.no_nested_declaration
            final(self).inv(), //# C07 collection.keeps_ids_in_range
            r is Ok ==> e_up(r->Ok_0, final(self).variables@.len() as int), //# C07,C09 collection.result_ids_in_range
            r is Ok ==> e_shape(r->Ok_0), //# C07 collection.result_shape
            r is Ok ==> r->Ok_0 is Collection && r->Ok_0->Collection_collection == collection && r->Ok_0->Collection_values@.len() == expr@.len()
                && forall|i: int| 0 <= i < expr@.len() ==> rel_e(#[trigger] expr@[i], r->Ok_0->Collection_values@[i]), //# C14 collection.members_in_order
            r is Err ==> r->Err_0.len() >= 1, //# C07 collection.an_error_result_is_never_an_empty_list
//@   endspec
//@   ghost entry
        broadcast use group_up;
//@   endghost
//@   loop 1 binder it
            invariant self.stack@ == old(self).stack@, self.frame(old(self)), //# C09,C02 collection.loop1.scope_stack_between_iterations
                old(self).stack@.len() > 0 ==> forall|i: int| 0 <= i < values@.len() ==> e_nodecl(#[trigger] values@[i]), //# C07 collection.loop1.aux2
                self.inv(), forall|i: int| 0 <= i < values@.len() ==> e_up(#[trigger] values@[i], self.variables@.len() as int), //# C07,C09 collection.loop1.aux3
                forall|i: int| 0 <= i < values@.len() ==> e_shape(#[trigger] values@[i]), //# C07 collection.loop1.aux4
                it.seq().len() == expr@.len(), values@.len() == it.index@, //# - collection.loop1.aux5
                forall|k: int| 0 <= k < expr@.len() ==> *(#[trigger] it.seq()[k]) == expr@[k], //# - collection.loop1.aux6
                forall|k: int| 0 <= k < values@.len() ==> rel_e(#[trigger] expr@[k], values@[k]), //# C14 collection.loop.members_in_order
//@   endloop
//@ end

//@ fn sylt-compiler/src/name_resolution.rs binop
//@   in Resolver
//@   props C09 C02 C07 C14
//@   attr #[verifier::exec_allows_no_decreases_clause]
//@   ret r
//@   spec
        requires
            sylt_parser::pe_shape(*a), sylt_parser::pe_shape(*b), !(op is Nop), //# C07 binop.pre.parser_tree_shape

            old(self).inv(), //# C07 binop.pre.ids_in_range
            old(self).stack@.len() > 0, //# C09 binop.pre.resolved_inside_a_scope

        ensures
            r is Ok ==> final(self).stack@ == old(self).stack@, //# C09,C02 binop.scope_restored
            is_prefix(old(self).stack@, final(self).stack@), //# C09,C02 binop.never_pops_callers_bindings
            final(self).frame(old(self)), //# C09 binop.frame_globals_untouched_variables_only_grow
            r is Ok && old(self).stack@.len() > 0 ==> e_nodecl(r->Ok_0), //# C07 binop.no_nested_declaration
            final(self).inv(), //# C07 binop.keeps_ids_in_range
            r is Ok ==> e_up(r->Ok_0, final(self).variables@.len() as int), //# C07,C09 binop.result_ids_in_range
            r is Ok ==> e_shape(r->Ok_0), //# C07 binop.result_shape
            r is Ok ==> r->Ok_0 is BinOp && r->Ok_0->BinOp_op == op && rel_e(*a, *r->Ok_0->BinOp_a) && rel_e(*b, *r->Ok_0->BinOp_b), //# C14 binop.result_shape_of_operands
            r is Err ==> r->Err_0.len() >= 1, //# C07 binop.an_error_result_is_never_an_empty_list
//@   endspec
//@   ghost entry
        broadcast use group_up;
//@   endghost
//@ end

//@ fn sylt-compiler/src/name_resolution.rs uniop
//@   in Resolver
//@   props C09 C02 C07 C14
//@   attr #[verifier::exec_allows_no_decreases_clause]
//@   ret r
//@   spec
        requires
            sylt_parser::pe_shape(*a), //# C07 uniop.pre.parser_tree_shape

            old(self).inv(), //# C07 uniop.pre.ids_in_range
            old(self).stack@.len() > 0, //# C09 uniop.pre.resolved_inside_a_scope

        ensures
            r is Ok ==> final(self).stack@ == old(self).stack@, //# C09,C02 uniop.scope_restored
            is_prefix(old(self).stack@, final(self).stack@), //# C09,C02 uniop.never_pops_callers_bindings
            final(self).frame(old(self)), //# C09 uniop.frame_globals_untouched_variables_only_grow
            r is Ok && old(self).stack@.len() > 0 ==> e_nodecl(r->Ok_0), //# C07 uniop.no_nested_declaration
            final(self).inv(), //# C07 uniop.keeps_ids_in_range
            r is Ok ==> e_up(r->Ok_0, final(self).variables@.len() as int), //# C07,C09 uniop.result_ids_in_range
            r is Ok ==> e_shape(r->Ok_0), //# C07 uniop.result_shape
            r is Ok ==> r->Ok_0 is UniOp && r->Ok_0->UniOp_op == op && rel_e(*a, *r->Ok_0->UniOp_a), //# C14 uniop.result_shape_of_operand
            r is Err ==> r->Err_0.len() >= 1, //# C07 uniop.an_error_result_is_never_an_empty_list
//@   endspec
//@   ghost entry
        broadcast use group_up;
//@   endghost
//@ end

//@ fn sylt-compiler/src/name_resolution.rs if_branch
//@   in Resolver
//@   props C09 C02 C07 C14
//@   attr #[verifier::exec_allows_no_decreases_clause]
//@   ret r
//@   spec
        requires
            sylt_parser::pib_shape(*branch), //# C07 if_branch.pre.parser_tree_shape

            old(self).inv(), //# C07 if_branch.pre.ids_in_range
            old(self).stack@.len() > 0, //# C09 if_branch.pre.resolved_inside_a_scope

        ensures
            r is Ok ==> final(self).stack@ == old(self).stack@, //# C09,C02 if_branch.scope_restored
            is_prefix(old(self).stack@, final(self).stack@), //# C09,C02 if_branch.never_pops_callers_bindings
            final(self).frame(old(self)), //# C09 if_branch.frame_globals_untouched_variables_only_grow
            r is Ok && old(self).stack@.len() > 0 ==> ib_nodecl(r->Ok_0), //# C07 if_branch.no_nested_declaration
            final(self).inv(), //# C07 if_branch.keeps_ids_in_range
            r is Ok ==> ib_up(r->Ok_0, final(self).variables@.len() as int), //# C07,C09 if_branch.result_ids_in_range
            r is Ok ==> ib_shape(r->Ok_0), //# C07 if_branch.result_shape
            r is Ok ==> rel_ib(*branch, r->Ok_0), //# C14 if_branch.condition_shape
            r is Err ==> r->Err_0.len() >= 1, //# C07 if_branch.an_error_result_is_never_an_empty_list
//@   endspec
//@   ghost entry
        broadcast use group_up;
//@   endghost
//@ end

//@ fn sylt-compiler/src/name_resolution.rs case_branch
//@   in Resolver
//@   props C09 C02 C07 C04
//@   attr #[verifier::exec_allows_no_decreases_clause]
//@   attr #[verifier::loop_isolation(false)]
//@   ret r
//@   rewrite equivalent
//@- let variable = &branch
//@-     .variable
//@-     .as_ref()
//@-     .map(|var| self.push_var(var, VarKind::Const));
//@+ let variable = &(match branch.variable.as_ref() {
//@+     Some(var) => Some(self.push_var(var, VarKind::Const)),
//@+     None => None,
//@+ });
//@   why Verus rejects a closure that captures &mut self; Option::map applies the closure to the Some payload and keeps None, which is this match
//@   endrewrite
//@   spec
        requires
            sylt_parser::pcb_shape(*branch), //# C07 case_branch.pre.parser_tree_shape

            old(self).inv(), //# C07 case_branch.pre.ids_in_range
            old(self).stack@.len() > 0, //# C09 case_branch.pre.resolved_inside_a_scope

        ensures
            r is Ok ==> final(self).stack@ == old(self).stack@, //# C09,C02 case_branch.scope_restored
            is_prefix(old(self).stack@, final(self).stack@), //# C09,C02 case_branch.never_pops_callers_bindings
            final(self).frame(old(self)), //# C09 case_branch.frame_globals_untouched_variables_only_grow
            r is Ok && old(self).stack@.len() > 0 ==> cb_nodecl(r->Ok_0), //# C07 case_branch.no_nested_declaration
            r is Ok && r->Ok_0.variable is Some ==> (r->Ok_0.variable->Some_0 as int) < final(self).variables@.len()
                && final(self).variables@[r->Ok_0.variable->Some_0 as int].kind is Const, //# C04 case_branch.binding_is_constant
            final(self).inv(), //# C07 case_branch.keeps_ids_in_range
            r is Ok ==> cb_up(r->Ok_0, final(self).variables@.len() as int), //# C07,C09 case_branch.result_ids_in_range
            r is Ok ==> cb_shape(r->Ok_0), //# C07 case_branch.result_shape
            r is Err ==> r->Err_0.len() >= 1, //# C07 case_branch.an_error_result_is_never_an_empty_list
//@   endspec
//@   ghost entry
        broadcast use group_up;
//@   endghost
//@   loop 1
            invariant is_prefix(old(self).stack@, self.stack@), self.frame(old(self)), self.stack@.len() > 0 || old(self).stack@.len() == 0, //# C09,C02 case_branch.loop1.scope_stack_between_iterations
                old(self).stack@.len() > 0 ==> all_nodecl(body@), //# C07 case_branch.loop1.aux2
                *variable is Some ==> ((*variable)->Some_0 as int) < self.variables@.len() && self.variables@[(*variable)->Some_0 as int].kind is Const, //# C07 case_branch.loop1.aux3
                self.inv(), all_up(body@, self.variables@.len() as int), //# C07,C09 case_branch.loop1.aux4
                forall|i: int| 0 <= i < body@.len() ==> s_shape(#[trigger] body@[i]), //# C07 case_branch.loop1.aux5
//@   endloop
//@ end

//@ fn sylt-compiler/src/name_resolution.rs block
//@   in Resolver
//@   props C09 C02 C07
//@   attr #[verifier::exec_allows_no_decreases_clause]
//@   attr #[verifier::loop_isolation(false)]
//@   ret r
//@   spec
        requires
            sylt_parser::pall_shape(parser_stmts@), //# C07 block.pre.parser_tree_shape

            old(self).inv(), //# C07 block.pre.ids_in_range
            old(self).stack@.len() > 0, //# C09 block.pre.resolved_inside_a_scope

        ensures
            is_prefix(old(self).stack@, final(self).stack@), //# C09,C02 block.only_appends_bindings
            final(self).frame(old(self)), //# C09 block.frame_globals_untouched_variables_only_grow
            r is Ok && old(self).stack@.len() > 0 ==> all_nodecl(r->Ok_0@), //# C07 block.no_nested_declaration
            final(self).inv(), //# C07 block.keeps_ids_in_range
            r is Ok ==> all_up(r->Ok_0@, final(self).variables@.len() as int), //# C07,C09 block.result_ids_in_range
            r is Ok ==> forall|i: int| 0 <= i < r->Ok_0@.len() ==> s_shape(#[trigger] r->Ok_0@[i]), //# C07 block.result_shape
            r is Err ==> r->Err_0.len() >= 1, //# C07 block.an_error_result_is_never_an_empty_list
//@   endspec
//@   ghost entry
        broadcast use group_up;
//@   endghost
//@   loop 1
            invariant is_prefix(old(self).stack@, self.stack@), self.frame(old(self)), //# C09,C02 block.loop1.scope_stack_between_iterations
                old(self).stack@.len() > 0 ==> all_nodecl(stmts@), //# C07 block.loop1.aux2
                self.inv(), all_up(stmts@, self.variables@.len() as int), //# C07,C09 block.loop1.aux3
                forall|i: int| 0 <= i < stmts@.len() ==> s_shape(#[trigger] stmts@[i]), //# C07 block.loop1.aux4
//@   endloop
//@ end

//@ fn sylt-compiler/src/name_resolution.rs expression
//@   in Resolver
//@   props C09 C02 C07 C04 C14
//@   attr #[verifier::exec_allows_no_decreases_clause]
//@   attr #[verifier::loop_isolation(false)]
//@   ret r
//@   spec
        requires
            sylt_parser::pe_shape(*expr), //# C07 expression.pre.parser_tree_shape

            old(self).inv(), //# C07 expression.pre.ids_in_range
            old(self).stack@.len() > 0, //# C09 expression.pre.resolved_inside_a_scope

        ensures
            r is Ok ==> final(self).stack@ == old(self).stack@, //# C09,C02 expression.scope_restored
            is_prefix(old(self).stack@, final(self).stack@), //# C09 expression.never_pops_callers_bindings
            final(self).frame(old(self)), //# C09 expression.frame_globals_untouched_variables_only_grow
            r is Ok && old(self).stack@.len() > 0 ==> e_nodecl(r->Ok_0), //# C07 expression.no_nested_declaration
            final(self).inv(), //# C07 expression.keeps_ids_in_range
            r is Ok ==> e_up(r->Ok_0, final(self).variables@.len() as int), //# C07,C09 expression.result_ids_in_range
            r is Ok ==> e_shape(r->Ok_0), //# C07 expression.result_shape
            r is Ok && expr.kind is Int ==> r->Ok_0 is Int, //# C07 expression.int_literal_stays_int_literal
            r is Ok ==> rel_e(*expr, r->Ok_0), //# C14 expression.result_is_the_desugared_tree
            r is Err ==> r->Err_0.len() >= 1, //# C07 expression.an_error_result_is_never_an_empty_list
//@   endspec
//@   ghost entry
        broadcast use group_up;
//@   endghost
//@   loop 1 binder itb
                    invariant self.stack@ == old(self).stack@, self.frame(old(self)), //# C09,C02 expression.loop1.scope_stack_between_iterations
                        old(self).stack@.len() > 0 ==> forall|i: int| 0 <= i < branches@.len() ==> ib_nodecl(#[trigger] branches@[i]), //# C07 expression.loop1.aux2
                        self.inv(), forall|i: int| 0 <= i < branches@.len() ==> ib_up(#[trigger] branches@[i], self.variables@.len() as int), //# C07,C09 expression.loop1.aux3
                        forall|i: int| 0 <= i < branches@.len() ==> ib_shape(#[trigger] branches@[i]), //# C07 expression.loop1.aux4
                        itb.seq().len() == parser_branches@.len(), branches@.len() == itb.index@, //# - expression.loop1.aux5
                        forall|k: int| 0 <= k < parser_branches@.len() ==> *(#[trigger] itb.seq()[k]) == parser_branches@[k], //# - expression.loop1.aux6
                        forall|k: int| 0 <= k < branches@.len() ==> rel_ib(#[trigger] parser_branches@[k], branches@[k]), //# C14 expression.loop1.if_branches_in_order
//@   endloop
//@   loop 2 binder itc
                    invariant self.stack@ == old(self).stack@, self.frame(old(self)), //# C09,C02 expression.loop2.scope_stack_between_iterations
                        old(self).stack@.len() > 0 ==> forall|i: int| 0 <= i < branches@.len() ==> cb_nodecl(#[trigger] branches@[i]), //# C07 expression.loop2.aux2
                        self.inv(), e_up(*to_match, self.variables@.len() as int), forall|i: int| 0 <= i < branches@.len() ==> cb_up(#[trigger] branches@[i], self.variables@.len() as int), //# C07,C09 expression.loop2.aux3
                        forall|i: int| 0 <= i < branches@.len() ==> cb_shape(#[trigger] branches@[i]), //# C07 expression.loop2.aux4
                        itc.seq().len() == parser_branches@.len(), branches@.len() == itc.index@, //# - expression.loop2.aux5
//@   endloop
//@   loop 3 binder itp
                    invariant is_prefix(old(self).stack@, self.stack@), self.frame(old(self)), ss == old(self).stack@.len(), //# C09,C02 expression.loop3.scope_stack_between_iterations
                        params_const(params@, self.variables@), //# C04 expression.loop.parameters_are_constants
                        params_tys(params@, self.variables@.len() as int), //# C07 expression.loop3.parameter_types_are_translatable
                        self.stack@.len() == ss + params@.len(), //# C07 expression.loop3.aux2
                        self.inv(), //# C07,C09 expression.loop3.aux3
                        itp.seq().len() == parser_params@.len(), params@.len() == itp.index@, //# - expression.loop3.aux4
//@   endloop
//@   loop 4 binder itf
                    invariant self.stack@ == old(self).stack@, self.frame(old(self)), //# C09,C02 expression.loop4.scope_stack_between_iterations
                        old(self).stack@.len() > 0 ==> fields_nodecl(fields@), //# C07 expression.loop4.aux2
                        self.inv(), (blob as int) < self.variables@.len(), (self_var as int) < self.variables@.len(), fields_up(fields@, self.variables@.len() as int), //# C07,C09 expression.loop4.aux3
                        forall|i: int| 0 <= i < fields@.len() ==> e_shape((#[trigger] fields@[i]).1), //# C07 expression.loop4.aux4
                        itf.seq().len() == parser_fields@.len(), fields@.len() == itf.index@, //# - expression.loop4.aux5
                        forall|k: int| 0 <= k < parser_fields@.len() ==> *(#[trigger] itf.seq()[k]) == parser_fields@[k], //# - expression.loop4.aux6
                        forall|k: int| 0 <= k < fields@.len() ==> (#[trigger] fields@[k]).0 == parser_fields@[k].0 && rel_e(parser_fields@[k].1, fields@[k].1), //# C14 expression.loop4.blob_fields_in_order
//@   endloop
//@ end

//@ fn sylt-compiler/src/name_resolution.rs statement
//@   in Resolver
//@   props C09 C02 C07
//@   attr #[verifier::exec_allows_no_decreases_clause]
//@   ret r
//@   rewrite equivalent count=2
//@- variables: variables.iter().map(|var| var.name.clone()).collect(),
//@+ variables: { let mut names: Vec<String> = Vec::new();
//@+ for var in variables.iter() { names.push(var.name.clone()); }
//@+ names },
//@   why map/collect into a Vec pushes one result per element, in order (a block expression in the same field position keeps the evaluation order of the fields)
//@   endrewrite
//@   rewrite equivalent
//@- fields: fields
//@-     .iter()
//@-     .map(|(field, ty)| Ok((field.name.clone(), (field.span, self.ty(ty)?))))
//@-     .collect::<ResolveResult<_>>()?,
//@+ fields: { let mut resolved: HashMap<String, (Span, Type)> = HashMap::new();
//@+ for (field, ty) in fields.iter() { resolved.insert(field.name.clone(), (field.span, self.ty(ty)?)); }
//@+ resolved },
//@   why collecting Results into a HashMap stops at the first Err, which `?` returns, and inserts the Ok pairs in iteration order, a later equal key replacing the earlier one: this loop
//@   endrewrite
//@   rewrite equivalent
//@- variants: variants
//@-     .iter()
//@-     .map(|(var, ty)| Ok((var.name.clone(), (var.span, self.ty(ty)?))))
//@-     .collect::<ResolveResult<_>>()?,
//@+ variants: { let mut resolved: HashMap<String, (Span, Type)> = HashMap::new();
//@+ for (var, ty) in variants.iter() { resolved.insert(var.name.clone(), (var.span, self.ty(ty)?)); }
//@+ resolved },
//@   why as for fields
//@   endrewrite
//@   loop 1
//@| for var in variables.iter()
            invariant self.inv(), self.stack@ == old(self).stack@, self.frame(old(self)), self.variables@ == old(self).variables@, //# C07,C09 statement.loop1.aux1
//@   endloop
//@   loop 2 binder itf
//@| for (field, ty) in fields.iter()
            invariant self.inv(), self.stack@ == old(self).stack@, self.frame(old(self)), self.variables@ == old(self).variables@, //# C07,C09 statement.loop2.aux1
                forall|j: int| 0 <= j < itf.seq().len() ==> fields@.contains_pair(*(#[trigger] itf.seq()[j]).0, *itf.seq()[j].1), //# - statement.loop2.aux2
                fields_tys(resolved@, self.variables@.len() as int), //# C07 statement.loop2.field_types_so_far_are_translatable
                forall|k: Identifier| #[trigger] fields@.contains_key(k) ==> sylt_parser::pt_ok(fields@[k]), //# C07 statement.loop2.aux3
                vstd::std_specs::hash::obeys_key_model::<String>(), //# C07 statement.loop2.aux4
//@   endloop
//@   loop 3
//@| for var in variables.iter()
            invariant self.inv(), self.stack@ == old(self).stack@, self.frame(old(self)), self.variables@ == old(self).variables@, //# C07,C09 statement.loop3.aux1
//@   endloop
//@   loop 4 binder itv
//@| for (var, ty) in variants.iter()
            invariant self.inv(), self.stack@ == old(self).stack@, self.frame(old(self)), self.variables@ == old(self).variables@, //# C07,C09 statement.loop4.aux1
                forall|j: int| 0 <= j < itv.seq().len() ==> variants@.contains_pair(*(#[trigger] itv.seq()[j]).0, *itv.seq()[j].1), //# - statement.loop4.aux2
                fields_tys(resolved@, self.variables@.len() as int), //# C07 statement.loop4.variant_types_so_far_are_translatable
                forall|k: Identifier| #[trigger] variants@.contains_key(k) ==> sylt_parser::pt_ok(variants@[k]), //# C07 statement.loop4.aux3
                vstd::std_specs::hash::obeys_key_model::<String>(), //# C07 statement.loop4.aux4
//@   endloop
//@   spec
        requires
            sylt_parser::ps_shape(*stmt), //# C07 statement.pre.parser_tree_shape

            old(self).inv(), //# C07 statement.pre.ids_in_range
            old(self).stack@.len() == 0 ==> sylt_parser::top_kind(*stmt), //# C09 statement.pre.only_top_level_statements_are_resolved_outside_a_scope

        ensures
            is_prefix(old(self).stack@, final(self).stack@) || (old(self).stack@.len() == 0), //# C09 statement.never_pops_callers_bindings
            final(self).frame(old(self)), //# C09 statement.frame_globals_untouched_variables_only_grow
            r is Ok && !(stmt.kind is Definition && old(self).stack@.len() > 0) ==> final(self).stack@ == old(self).stack@, //# C09,C02 statement.scope_restored_unless_local_definition
            r is Ok && stmt.kind is Definition && old(self).stack@.len() > 0 ==>
                final(self).stack@.len() == old(self).stack@.len() + 1
                && is_prefix(old(self).stack@, final(self).stack@)
                && final(self).stack@.last().0 == stmt.kind->Definition_ident.name
                && r->Ok_0 is Some && r->Ok_0->Some_0 is Definition
                && final(self).stack@.last().1 == r->Ok_0->Some_0->Definition_var, //# C09 statement.local_definition_binds_exactly_its_name
            r is Ok && r->Ok_0 is Some && old(self).stack@.len() > 0 ==> s_nodecl(r->Ok_0->Some_0), //# C07 statement.no_nested_declaration
            r is Ok && r->Ok_0 is Some && old(self).stack@.len() == 0 && r->Ok_0->Some_0 is Definition ==> s_nodecl(r->Ok_0->Some_0), //# C07 statement.global_initialiser_has_no_declaration
            final(self).inv(), //# C07 statement.keeps_ids_in_range
            r is Ok && r->Ok_0 is Some ==> s_up(r->Ok_0->Some_0, final(self).variables@.len() as int), //# C07,C09 statement.result_ids_in_range
            r is Ok && stmt.kind is Definition && old(self).stack@.len() > 0 && !(stmt.kind->Definition_value.kind is Function) ==>
                e_up(r->Ok_0->Some_0->Definition_value, r->Ok_0->Some_0->Definition_var as int), //# C09 statement.initialiser_cannot_see_the_variable_it_defines
            r is Ok && r->Ok_0 is Some ==> s_shape(r->Ok_0->Some_0), //# C07 statement.result_shape
            r is Ok && stmt.kind is Blob ==> r->Ok_0 is Some && r->Ok_0->Some_0 is Blob, //# C07 statement.a_blob_declaration_stays_a_blob_declaration
            r is Ok && stmt.kind is Enum ==> r->Ok_0 is Some && r->Ok_0->Some_0 is Enum, //# C07 statement.an_enum_declaration_stays_an_enum_declaration
            r is Ok && stmt.kind is ExternalDefinition ==> r->Ok_0 is Some && r->Ok_0->Some_0 is ExternalDefinition, //# C07 statement.an_external_definition_stays_one
            r is Ok && stmt.kind is Definition ==> r->Ok_0 is Some && r->Ok_0->Some_0 is Definition, //# C07 statement.a_definition_stays_a_definition
            r is Ok && (stmt.kind is Use || stmt.kind is FromUse || stmt.kind is EmptyStatement) ==> r->Ok_0 is None, //# C07 statement.imports_and_empty_statements_disappear
            r is Ok && r->Ok_0 is Some && r->Ok_0->Some_0 is Blob ==> fields_tys(r->Ok_0->Some_0->Blob_fields@, final(self).variables@.len() as int), //# C07 statement.field_types_of_a_blob_declaration_are_translatable
            r is Ok && r->Ok_0 is Some && r->Ok_0->Some_0 is Enum ==> fields_tys(r->Ok_0->Some_0->Enum_variants@, final(self).variables@.len() as int), //# C07 statement.variant_types_of_an_enum_declaration_are_translatable
            r is Err ==> r->Err_0.len() >= 1, //# C07 statement.an_error_result_is_never_an_empty_list
//@   endspec
//@   ghost entry
        broadcast use group_up, vstd::std_specs::hash::group_hash_axioms;
        proof { axiom_identifier_hash_key(); axiom_string_hash_key(); }
//@   endghost
//@ end
}

// ---- the entry point of the phase: every module statement goes through Resolver::statement at the top
// level (empty scope stack), and what comes out is what TypeChecker::solve requires (os_ok) ------------
/// os_ok for every table size from n on (the variable table only grows while the modules are resolved)
pub open spec fn os_up(s: Statement, n: int) -> bool { forall|m: int| m >= n ==> #[trigger] os_ok(s, m) }
pub open spec fn all_os_up(ss: Seq<Statement>, n: int) -> bool { forall|k: int| 0 <= k < ss.len() ==> os_up(#[trigger] ss[k], n) }
proof fn lemma_os_up_intro(s: Statement, n: int)
    requires s is Blob || s is Enum || s is ExternalDefinition || s is Definition,
        s_up(s, n), s_shape(s), s is Definition ==> s_nodecl(s),
        s is Blob ==> fields_tys(s->Blob_fields@, n), s is Enum ==> fields_tys(s->Enum_variants@, n),
    ensures os_up(s, n),
{
    assert forall|m: int| m >= n implies #[trigger] os_ok(s, m) by {
        assert(s_below(s, m));
        match s {
            Statement::Blob { fields, .. } => { assert forall|k: String| #[trigger] fields@.contains_key(k) implies rt_ok(fields@[k].1, m) by { assert(rt_up(fields@[k].1, n)); } }
            Statement::Enum { variants, .. } => { assert forall|k: String| #[trigger] variants@.contains_key(k) implies rt_ok(variants@[k].1, m) by { assert(rt_up(variants@[k].1, n)); } }
            _ => {}
        }
    }
}

//@ fn sylt-compiler/src/name_resolution.rs resolve
//@   props C07 C05 C09
//@   attr #[verifier::exec_allows_no_decreases_clause]
//@   attr #[verifier::loop_isolation(false)]
//@   ret r
//@   spec
    requires
        sylt_parser::modules_ok(tree.modules@), //# C07 resolve.pre.every_module_statement_is_a_top_level_statement_with_parser_shape
    ensures
        r is Ok ==> forall|k: int| 0 <= k < r->Ok_0.1@.len() ==> os_ok(#[trigger] r->Ok_0.1@[k], r->Ok_0.0@.len() as int), //# C07 resolve.output_is_what_the_type_checker_requires_of_top_level_statements
        r is Err ==> r->Err_0.len() >= 1, //# C07 resolve.an_error_result_is_never_an_empty_list
//@   endspec
//@   loop 1
//@| for (file_or_lib, module) in tree.modules.iter()
        invariant resolver.inv(), resolver.stack@.len() == 0, //# C07,C09 resolve.loop1.global_pass_keeps_ids_in_range_and_the_scope_stack_empty
//@   endloop
//@   loop 2
//@| for (file_or_lib, module) in tree.modules.iter()
        invariant resolver.inv(), resolver.stack@.len() == 0, //# C07,C09 resolve.loop2.import_pass_keeps_ids_in_range_and_the_scope_stack_empty
//@   endloop
//@   loop 3 binder itm
//@| for (_, module) in tree.modules.iter()
        invariant resolver.inv(), resolver.stack@.len() == 0, //# C07,C09 resolve.loop3.every_module_starts_with_an_empty_scope_stack
            all_os_up(out@, resolver.variables@.len() as int), //# C07 resolve.loop3.statements_so_far_are_what_the_type_checker_requires
            itm.seq().len() == tree.modules@.len(), forall|k: int| 0 <= k < tree.modules@.len() ==> *(#[trigger] itm.seq()[k]) == tree.modules@[k], //# - resolve.loop3.aux
//@   endloop
//@   loop 4 binder its
//@| for stmt in module.statements.iter()
            invariant resolver.inv(), resolver.stack@.len() == 0, //# C07,C09 resolve.loop4.every_top_level_statement_starts_with_an_empty_scope_stack
                all_os_up(out@, resolver.variables@.len() as int), //# C07 resolve.loop4.statements_so_far_are_what_the_type_checker_requires
                sylt_parser::module_ok(*module), its.seq().len() == module.statements@.len(), forall|k: int| 0 <= k < module.statements@.len() ==> *(#[trigger] its.seq()[k]) == module.statements@[k], //# - resolve.loop4.aux
//@   endloop
//@   ghost before
//@| if let Some(resolved) = resolver.statement(&stmt)? {
                let ghost n0 = resolver.variables@.len() as int;
                let ghost out0 = out@;
//@   endghost
//@   ghost after
//@| out.push(resolved);
                proof {
                    lemma_os_up_intro(resolved, resolver.variables@.len() as int);
                    assert forall|k: int| 0 <= k < out@.len() implies os_up(#[trigger] out@[k], resolver.variables@.len() as int) by {
                        if k < out0.len() { assert(out@[k] == out0[k]); assert(os_up(out0[k], n0)); }
                    }
                }
//@   endghost
//@   ghost before
//@| Ok((resolver.variables, out))
    assert(resolver.global_of(0, "start"@) is Some); //# C05 resolve.an_accepted_program_has_a_start_in_the_main_module
//@   endghost
//@ end

} // mod name_resolution
} // verus!
fn main() {}
