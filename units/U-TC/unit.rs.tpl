//@ unit U-TC
// The type checker: union-find type graph (C02), operator tables (C03), assignability / purity /
// loop context (C04, C05), panic sites (C07).
use vstd::prelude::*;
use vstd::std_specs::cmp::*;
use std::collections::{BTreeMap, BTreeSet, HashMap};
verus! {
// assumption A-64bit: the compiler runs on a 64-bit target (i64 -> usize casts of non-negative values are exact)
global size_of usize == 8;

pub mod common {
    use super::*;
//@ include common/base_types.tpl
}

pub mod ty {
    use super::*;
    use super::common::*;
//@ type sylt-compiler/src/ty.rs enum Purity
//@ type sylt-compiler/src/ty.rs enum Type
}

pub mod name_resolution {
    use super::*;
    use super::common::*;
//@ include common/resolved_ast.tpl
}

pub mod typechecker {
    use super::*;
    use super::common::*;
    use super::name_resolution::{Type as ResolverType, *};
    use super::ty::{Type, Purity};

//@ type sylt-compiler/src/typechecker.rs type TypeResult
//@ type sylt-compiler/src/typechecker.rs type RetNValue
//@ type sylt-compiler/src/typechecker.rs struct TypeNode
//@ type sylt-compiler/src/typechecker.rs enum Constraint keep=Eq,PartialOrd,Ord eq=keep
//@ type sylt-compiler/src/typechecker.rs struct TypeVariable
//@ type sylt-compiler/src/typechecker.rs struct TypeChecker
//@ type sylt-compiler/src/typechecker.rs struct TypeCtx keep=Copy clone=keep

// ================= specification vocabulary: the type graph =====================================

/// `h` is a height witness: every parent link goes to a node in range with a strictly smaller height
spec fn hok(ts: Seq<TypeNode>, h: Seq<nat>) -> bool {
    &&& h.len() == ts.len()
    &&& forall|i: int| 0 <= i < ts.len() ==> match (#[trigger] ts[i]).parent {
            Some(p) => (p.0 as int) < ts.len() && h[p.0 as int] < h[i],
            None => true,
        }
}
/// the parent links form a forest (in range, acyclic)
spec fn wf_forest(ts: Seq<TypeNode>) -> bool { exists|h: Seq<nat>| hok(ts, h) }

spec fn rep(ts: Seq<TypeNode>, h: Seq<nat>, i: int) -> int
    decreases h[i] when hok(ts, h) && 0 <= i < ts.len()
{
    match ts[i].parent {
        Some(p) => rep(ts, h, p.0 as int),
        None => i,
    }
}
spec fn the_h(ts: Seq<TypeNode>) -> Seq<nat> { choose|h: Seq<nat>| hok(ts, h) }
/// the representative (root) of node i
spec fn rep0(ts: Seq<TypeNode>, i: int) -> int { rep(ts, the_h(ts), i) }

proof fn lemma_rep_props(ts: Seq<TypeNode>, h: Seq<nat>, i: int)
    requires hok(ts, h), 0 <= i < ts.len()
    ensures
        0 <= rep(ts, h, i) < ts.len(),
        ts[rep(ts, h, i)].parent is None,
        rep(ts, h, i) != i ==> h[rep(ts, h, i)] < h[i],
        rep(ts, h, i) == i <==> ts[i].parent is None,
    decreases h[i]
{
    match ts[i].parent {
        Some(p) => { lemma_rep_props(ts, h, p.0 as int); }
        None => {}
    }
}
proof fn lemma_rep_indep(ts: Seq<TypeNode>, h1: Seq<nat>, h2: Seq<nat>, i: int)
    requires hok(ts, h1), hok(ts, h2), 0 <= i < ts.len()
    ensures rep(ts, h1, i) == rep(ts, h2, i)
    decreases h1[i]
{
    match ts[i].parent {
        Some(p) => { lemma_rep_indep(ts, h1, h2, p.0 as int); }
        None => {}
    }
}
proof fn lemma_rep0_props(ts: Seq<TypeNode>, i: int)
    requires wf_forest(ts), 0 <= i < ts.len()
    ensures
        0 <= rep0(ts, i) < ts.len(),
        ts[rep0(ts, i)].parent is None,
        rep0(ts, i) == i <==> ts[i].parent is None,
        rep0(ts, rep0(ts, i)) == rep0(ts, i),
{
    lemma_rep_props(ts, the_h(ts), i);
    lemma_rep_props(ts, the_h(ts), rep0(ts, i));
}
/// same parents except at `n`, whose parent becomes `r` = rep(n): all reps unchanged
proof fn lemma_compress(ts: Seq<TypeNode>, ts2: Seq<TypeNode>, h: Seq<nat>, n: int, ru: usize, i: int)
    requires
        hok(ts, h), hok(ts2, h), ts.len() == ts2.len(), 0 <= n < ts.len(), 0 <= i < ts.len(),
        ru as int == rep(ts, h, n), ts[n].parent is Some,
        ts2[n].parent == Some(TyID(ru)),
        forall|j: int| 0 <= j < ts.len() && j != n ==> ts2[j].parent == ts[j].parent,
    ensures rep(ts2, h, i) == rep(ts, h, i)
    decreases h[i]
{
    let r = ru as int;
    lemma_rep_props(ts, h, n);
    if i == n {
        assert(ts[r].parent is None);
        assert(r != n);
        assert(ts2[r].parent is None);
        assert(rep(ts2, h, r) == r);
        assert(rep(ts2, h, n) == rep(ts2, h, r));
    } else {
        match ts[i].parent {
            Some(p) => { lemma_compress(ts, ts2, h, n, ru, p.0 as int); }
            None => {}
        }
    }
}
/// the partition after `union`: the classes of ra and rb become one class with root w, no other
/// class is touched (a statement over the WHOLE graph)
spec fn merged_into(ts0: Seq<TypeNode>, ts3: Seq<TypeNode>, ra: int, rb: int, w: int) -> bool {
    (w == ra || w == rb) && forall|i: int| 0 <= i < ts0.len() ==>
        #[trigger] rep0(ts3, i) == (if rep0(ts0, i) == ra || rep0(ts0, i) == rb { w } else { rep0(ts0, i) })
}
spec fn shift_h(ts: Seq<TypeNode>, h: Seq<nat>, a: int, b: int) -> Seq<nat> {
    Seq::new(h.len(), |i: int| if rep(ts, h, i) == b { (h[i] + h[a] + 1) as nat } else { h[i] })
}
/// link root b under root a (a != b): heights of b's class are shifted above a
proof fn lemma_link(ts: Seq<TypeNode>, ts2: Seq<TypeNode>, h: Seq<nat>, a: usize, b: usize, i: int)
    requires
        hok(ts, h), ts.len() == ts2.len(), (a as int) < ts.len(), (b as int) < ts.len(), a != b,
        ts[a as int].parent is None, ts[b as int].parent is None,
        ts2[b as int].parent == Some(TyID(a)),
        forall|j: int| 0 <= j < ts.len() && j != b as int ==> (#[trigger] ts2[j]).parent == ts[j].parent,
        0 <= i < ts.len(),
    ensures
        hok(ts2, shift_h(ts, h, a as int, b as int)),
        rep(ts2, shift_h(ts, h, a as int, b as int), i) == (if rep(ts, h, i) == b as int { a as int } else { rep(ts, h, i) }),
    decreases h[i]
{
    let h2 = shift_h(ts, h, a as int, b as int);
    assert forall|j: int| 0 <= j < ts2.len() implies match (#[trigger] ts2[j]).parent {
            Some(p) => (p.0 as int) < ts2.len() && h2[p.0 as int] < h2[j],
            None => true,
        } by {
        lemma_rep_props(ts, h, j);
        if j == b as int {
            lemma_rep_props(ts, h, a as int);
            assert(rep(ts, h, a as int) == a as int);
            assert(rep(ts, h, b as int) == b as int);
        } else {
            match ts[j].parent {
                Some(p) => {
                    lemma_rep_props(ts, h, p.0 as int);
                    assert(rep(ts, h, j) == rep(ts, h, p.0 as int));
                }
                None => {}
            }
        }
    }
    assert(hok(ts2, h2));
    lemma_rep_props(ts, h, i);
    if i == b as int {
        lemma_rep_props(ts, h, a as int);
        assert(ts2[a as int].parent is None);
        assert(rep(ts2, h2, a as int) == a as int);
        assert(rep(ts2, h2, b as int) == rep(ts2, h2, a as int));
    } else {
        match ts[i].parent {
            Some(p) => {
                lemma_link(ts, ts2, h, a, b, p.0 as int);
                assert(rep(ts, h, i) == rep(ts, h, p.0 as int));
                assert(rep(ts2, h2, i) == rep(ts2, h2, p.0 as int));
            }
            None => {
                assert(rep(ts2, h2, i) == i);
            }
        }
    }
}

/// all type ids mentioned by a type are nodes of the graph
spec fn fields_in_range(fs: BTreeMap<String, (Span, TyID)>, n: int) -> bool {
    forall|k: String| #[trigger] fs@.dom().contains(k) ==> (fs@[k].1.0 as int) < n
}
spec fn ids_in_range(t: Type, n: int) -> bool {
    match t {
        Type::Tuple(xs) => forall|k: int| 0 <= k < xs.len() ==> (#[trigger] xs[k]).0 < n,
        Type::List(x) => x.0 < n,
        Type::Function(xs, r, _) => r.0 < n && forall|k: int| 0 <= k < xs.len() ==> (#[trigger] xs[k]).0 < n,
        Type::Blob(_, _, fs, xs) => fields_in_range(fs, n) && forall|k: int| 0 <= k < xs.len() ==> (#[trigger] xs[k]).0 < n,
        Type::ExternBlob(_, _, fs, xs, _) => fields_in_range(fs, n) && forall|k: int| 0 <= k < xs.len() ==> (#[trigger] xs[k]).0 < n,
        Type::Enum(_, _, fs, xs) => fields_in_range(fs, n) && forall|k: int| 0 <= k < xs.len() ==> (#[trigger] xs[k]).0 < n,
        _ => true,
    }
}
proof fn lemma_ids_mono(t: Type, n: int, m: int)
    requires ids_in_range(t, n), n <= m,
    ensures ids_in_range(t, m),
{
}
/// the ids a deferred constraint mentions are below n
spec fn con_in_range(c: Constraint, n: int) -> bool {
    match c {
        Constraint::Add(x) => x.0 < n, Constraint::Sub(x) => x.0 < n, Constraint::Mul(x) => x.0 < n,
        Constraint::DivTop(x) => x.0 < n, Constraint::DivBot(x) => x.0 < n, Constraint::DivRes(x) => x.0 < n,
        Constraint::Equ(x) => x.0 < n, Constraint::Cmp(x) => x.0 < n, Constraint::CmpEqu(x) => x.0 < n,
        Constraint::ConstantIndex(_, x) => x.0 < n,
        Constraint::Field(_, x) => x.0 < n,
        Constraint::Variant(_, Some(x)) => x.0 < n,
        _ => true,
    }
}
spec fn cons_in_range(m: Map<Constraint, Span>, n: int) -> bool {
    forall|c: Constraint| #[trigger] m.dom().contains(c) ==> con_in_range(c, n)
}
/// every id stored in a node - in its type or in a deferred constraint - is a node of the graph
spec fn ids_closed(ts: Seq<TypeNode>) -> bool {
    forall|i: int| 0 <= i < ts.len() ==> ids_in_range((#[trigger] ts[i]).ty, ts.len() as int) && cons_in_range(ts[i].constraints@, ts.len() as int)
}
/// sum of the `size` counters of the roots among the first n nodes
spec fn root_size_sum(ts: Seq<TypeNode>, n: int) -> int decreases n {
    if n <= 0 { 0 } else { root_size_sum(ts, n - 1) + (if ts[n - 1].parent is None { ts[n - 1].size as int } else { 0int }) }
}
/// the class-size counters of all roots add up to the number of nodes (every node is counted in
/// exactly one class) - this is what makes `size += size` in `union` free of overflow
spec fn sizes_inv(ts: Seq<TypeNode>) -> bool { root_size_sum(ts, ts.len() as int) == ts.len() }

proof fn lemma_sum_nonneg(ts: Seq<TypeNode>, n: int)
    requires 0 <= n <= ts.len(),
    ensures root_size_sum(ts, n) >= 0,
    decreases n
{
    if n > 0 { lemma_sum_nonneg(ts, n - 1); }
}
/// two different roots together are not larger than the sum
proof fn lemma_two_roots_le_sum(ts: Seq<TypeNode>, n: int, i: int, j: int)
    requires 0 <= i < n <= ts.len(), 0 <= j < n, i != j, ts[i].parent is None, ts[j].parent is None,
    ensures ts[i].size + ts[j].size <= root_size_sum(ts, n),
    decreases n
{
    if n - 1 == i {
        lemma_one_root_le_sum(ts, n - 1, j);
    } else if n - 1 == j {
        lemma_one_root_le_sum(ts, n - 1, i);
    } else {
        lemma_two_roots_le_sum(ts, n - 1, i, j);
    }
}
proof fn lemma_one_root_le_sum(ts: Seq<TypeNode>, n: int, i: int)
    requires 0 <= i < n <= ts.len(), ts[i].parent is None,
    ensures ts[i].size <= root_size_sum(ts, n),
    decreases n
{
    if n - 1 == i { lemma_sum_nonneg(ts, n - 1); } else { lemma_one_root_le_sum(ts, n - 1, i); }
}
/// same roots with the same sizes => same sum
proof fn lemma_sum_same(a: Seq<TypeNode>, b: Seq<TypeNode>, n: int)
    requires 0 <= n <= a.len(), a.len() == b.len(),
        forall|i: int| 0 <= i < n ==> ((#[trigger] b[i]).parent is None) == (a[i].parent is None) && b[i].size == a[i].size,
    ensures root_size_sum(b, n) == root_size_sum(a, n),
    decreases n
{
    if n > 0 { lemma_sum_same(a, b, n - 1); }
}
/// the sum after `union`'s two writes: l stops being a root, w's size grows by l's size
proof fn lemma_sum_link(a: Seq<TypeNode>, b: Seq<TypeNode>, n: int, w: int, l: int)
    requires 0 <= n <= a.len(), a.len() == b.len(), 0 <= w < a.len(), 0 <= l < a.len(), w != l,
        a[w].parent is None, a[l].parent is None, b[w].parent is None, b[l].parent is Some,
        b[w].size == a[w].size + a[l].size,
        forall|i: int| 0 <= i < a.len() && i != w && i != l ==> ((#[trigger] b[i]).parent is None) == (a[i].parent is None) && b[i].size == a[i].size,
    ensures root_size_sum(b, n) == root_size_sum(a, n) + (if w < n { a[l].size as int } else { 0int }) - (if l < n { a[l].size as int } else { 0int }),
    decreases n
{
    if n > 0 { lemma_sum_link(a, b, n - 1, w, l); }
}

/// what `push_type` does to the graph (opaque for callers: the quantified frame facts are only
/// revealed where they are needed, they are expensive in a function that pushes many types)
#[verifier::opaque]
spec fn push_frame(ts0: Seq<TypeNode>, ts1: Seq<TypeNode>, ty: Type) -> bool {
    &&& ts1.len() == ts0.len() + 1
    &&& ts1[ts0.len() as int].ty == ty
    &&& ts1[ts0.len() as int].parent is None
    &&& ts1[ts0.len() as int].constraints@.dom() =~= Set::<Constraint>::empty()
    &&& forall|i: int| 0 <= i < ts0.len() ==> ts1[i] == ts0[i]
    &&& forall|i: int| 0 <= i < ts0.len() ==> rep0(ts1, i) == rep0(ts0, i)
    &&& rep0(ts1, ts0.len() as int) == ts0.len()
}
/// type of (the class of) an id
spec fn ty_of(ts: Seq<TypeNode>, a: TyID) -> Type { cty(ts, a.0 as int) }


/// the observable content of the graph: the type of (the class of) every id
spec fn tview(ts: Seq<TypeNode>) -> Seq<Type> { Seq::new(ts.len(), |i: int| ts[rep0(ts, i)].ty) }

/// nothing observable changed: same partition, same payloads (what find/find_type/add/... guarantee)
spec fn same_graph(a: Seq<TypeNode>, b: Seq<TypeNode>) -> bool {
    &&& a.len() == b.len()
    &&& forall|i: int| 0 <= i < a.len() ==> #[trigger] rep0(b, i) == rep0(a, i)
    &&& forall|i: int| 0 <= i < a.len() ==> (#[trigger] b[i]).ty == a[i].ty && b[i].size == a[i].size && b[i].constraints == a[i].constraints
}
proof fn lemma_same_graph(a: Seq<TypeNode>, b: Seq<TypeNode>)
    requires wf_forest(a), wf_forest(b), same_graph(a, b),
    ensures tview(b) == tview(a), ids_closed(a) ==> ids_closed(b),
{
    assert forall|i: int| 0 <= i < a.len() implies tview(b)[i] == tview(a)[i] by {
        lemma_rep0_props(a, i);
        assert(rep0(b, i) == rep0(a, i));
        assert(b[rep0(a, i)].ty == a[rep0(a, i)].ty);
    }
    assert(tview(b) =~= tview(a));
    if ids_closed(a) {
        assert forall|i: int| 0 <= i < b.len() implies ids_in_range((#[trigger] b[i]).ty, b.len() as int) by {
            assert(b[i].ty == a[i].ty);
            assert(ids_in_range(a[i].ty, a.len() as int));
        }
    }
}
proof fn lemma_same_graph_trans(a: Seq<TypeNode>, b: Seq<TypeNode>, c: Seq<TypeNode>)
    requires same_graph(a, b), same_graph(b, c),
    ensures same_graph(a, c),
{
    assert forall|i: int| 0 <= i < a.len() implies #[trigger] rep0(c, i) == rep0(a, i) by { assert(rep0(b, i) == rep0(a, i)); }
    assert forall|i: int| 0 <= i < a.len() implies (#[trigger] c[i]).ty == a[i].ty && c[i].size == a[i].size && c[i].constraints == a[i].constraints by { assert(b[i].ty == a[i].ty); }
}
proof fn lemma_unchanged(a: Seq<TypeNode>, b: Seq<TypeNode>)
    requires
        wf_forest(a), wf_forest(b), a.len() == b.len(),
        forall|i: int| 0 <= i < a.len() ==> rep0(b, i) == rep0(a, i),
        forall|i: int| 0 <= i < a.len() ==> (#[trigger] b[i]).ty == a[i].ty && b[i].size == a[i].size && b[i].constraints == a[i].constraints,
    ensures
        same_graph(a, b), tview(b) == tview(a), ids_closed(a) ==> ids_closed(b), sizes_inv(a) ==> sizes_inv(b),
        forall|o: Seq<TypeNode>| #[trigger] same_graph(o, a) ==> same_graph(o, b),
        merges_from(a, b), cons_from(a, b), heads_from(a, b),
{
    assert(same_graph(a, b));
    lemma_cons_same_graph(a, b);
    lemma_heads_same_types(a, b);
    assert(merges_only(a, b)) by { assert forall|i: int, j: int| 0 <= i < a.len() && 0 <= j < a.len() && rep0(a, i) == rep0(a, j) implies #[trigger] rep0(b, i) == #[trigger] rep0(b, j) by { assert(rep0(b, i) == rep0(a, i)); assert(rep0(b, j) == rep0(a, j)); } }
    lemma_merges_from(a, b);
    lemma_same_graph(a, b);
    lemma_same_roots(a, b);
    assert forall|o: Seq<TypeNode>| #[trigger] same_graph(o, a) implies same_graph(o, b) by {
        lemma_same_graph_trans(o, a, b);
    }
}
proof fn lemma_same_graph_refl(a: Seq<TypeNode>) ensures same_graph(a, a) {}
/// a step that changes nothing observable satisfies every component of the frame
broadcast proof fn lemma_same_graph_frames(a: Seq<TypeNode>, b: Seq<TypeNode>)
    requires #[trigger] same_graph(a, b), wf_forest(a), wf_forest(b),
    ensures merges_from(a, b), cons_from(a, b), heads_from(a, b),
{
    lemma_unchanged(a, b);
}
proof fn lemma_unchanged_from_same_graph(a: Seq<TypeNode>, b: Seq<TypeNode>)
    requires same_graph(a, b),
    ensures merges_from(a, b),
{
    assert(merges_only(a, b)) by { assert forall|i: int, j: int| 0 <= i < a.len() && 0 <= j < a.len() && rep0(a, i) == rep0(a, j) implies #[trigger] rep0(b, i) == #[trigger] rep0(b, j) by { assert(rep0(b, i) == rep0(a, i)); assert(rep0(b, j) == rep0(a, j)); } }
    lemma_merges_from(a, b);
}

/// classes only merge: ids that were in one class stay in one class (the graph may also grow)
spec fn merges_only(a: Seq<TypeNode>, b: Seq<TypeNode>) -> bool {
    &&& a.len() <= b.len()
    &&& forall|i: int, j: int| 0 <= i < a.len() && 0 <= j < a.len() && rep0(a, i) == rep0(a, j) ==> #[trigger] rep0(b, i) == #[trigger] rep0(b, j)
}
/// the chaining form used in postconditions: whatever had only merged up to the old state has only
/// merged up to the new state
spec fn merges_from(a: Seq<TypeNode>, b: Seq<TypeNode>) -> bool {
    forall|o: Seq<TypeNode>| #[trigger] merges_only(o, a) ==> merges_only(o, b)
}
proof fn lemma_merges_refl(a: Seq<TypeNode>) ensures merges_only(a, a) {}
proof fn lemma_merges_trans(a: Seq<TypeNode>, b: Seq<TypeNode>, c: Seq<TypeNode>)
    requires merges_only(a, b), merges_only(b, c),
    ensures merges_only(a, c),
{
    assert forall|i: int, j: int| 0 <= i < a.len() && 0 <= j < a.len() && rep0(a, i) == rep0(a, j) implies #[trigger] rep0(c, i) == #[trigger] rep0(c, j) by {
        assert(rep0(b, i) == rep0(b, j));
    }
}
/// what merges_only says about two ids (for functions that hide the definition)
proof fn lemma_merges_use(a: Seq<TypeNode>, b: Seq<TypeNode>, i: int, j: int)
    requires merges_only(a, b), 0 <= i < a.len(), 0 <= j < a.len(), rep0(a, i) == rep0(a, j),
    ensures rep0(b, i) == rep0(b, j),
{}
/// a step that keeps every old representative relation makes merges_from hold
proof fn lemma_merges_from(a: Seq<TypeNode>, b: Seq<TypeNode>)
    requires merges_only(a, b),
    ensures merges_from(a, b),
{
    assert forall|o: Seq<TypeNode>| #[trigger] merges_only(o, a) implies merges_only(o, b) by { lemma_merges_trans(o, a, b); }
}
proof fn lemma_view_members(ts: Seq<TypeNode>, a: TyID)
    requires wf_forest(ts), ids_closed(ts), (a.0 as int) < ts.len(),
    ensures ids_in_range(tview(ts)[a.0 as int], ts.len() as int), tview(ts)[a.0 as int] == ty_of(ts, a),
{
    lemma_rep0_props(ts, a.0 as int);
}

// ---- the operator tables of the statement (C03, typing half of C19), written from the
// documentation, depth-indexed so that they are total on cyclic type graphs: "accepted" means
// compatible at every depth ------------------------------------------------------------------
spec fn is_num(t: Type) -> bool { t is Int || t is Float }

/// `+`: int+int, float+float, str+str; tuples of equal length element-wise; Unknown is deferred
spec fn add_ok(m: Seq<Type>, a: TyID, b: TyID, d: nat) -> bool decreases d {
    if d == 0 { true } else {
        match (m[a.0 as int], m[b.0 as int]) {
            (Type::Unknown, _) => true,
            (_, Type::Unknown) => true,
            (Type::Float, Type::Float) => true,
            (Type::Int, Type::Int) => true,
            (Type::Str, Type::Str) => true,
            (Type::Tuple(x), Type::Tuple(y)) => x.len() == y.len()
                && forall|i: int| 0 <= i < x.len() ==> add_ok(m, #[trigger] x[i], y[i], (d - 1) as nat),
            _ => false,
        }
    }
}
/// `-` and `*`: int.int, float.float; tuples element-wise
spec fn arith_ok(m: Seq<Type>, a: TyID, b: TyID, d: nat) -> bool decreases d {
    if d == 0 { true } else {
        match (m[a.0 as int], m[b.0 as int]) {
            (Type::Unknown, _) => true,
            (_, Type::Unknown) => true,
            (Type::Float, Type::Float) => true,
            (Type::Int, Type::Int) => true,
            (Type::Tuple(x), Type::Tuple(y)) => x.len() == y.len()
                && forall|i: int| 0 <= i < x.len() ==> arith_ok(m, #[trigger] x[i], y[i], (d - 1) as nat),
            _ => false,
        }
    }
}
/// `/`: number / number; tuple / number element-wise; tuple / tuple of equal length element-wise
spec fn div_ok(m: Seq<Type>, a: TyID, b: TyID, d: nat) -> bool decreases d {
    if d == 0 { true } else {
        let ta = m[a.0 as int];
        let tb = m[b.0 as int];
        if ta is Unknown || tb is Unknown { true }
        else if is_num(ta) && is_num(tb) { true }
        else if ta is Tuple && is_num(tb) {
            forall|i: int| 0 <= i < ta->Tuple_0.len() ==> div_ok(m, #[trigger] ta->Tuple_0[i], b, (d - 1) as nat)
        } else if ta is Tuple && tb is Tuple {
            ta->Tuple_0.len() == tb->Tuple_0.len()
            && forall|i: int| 0 <= i < ta->Tuple_0.len() ==> div_ok(m, #[trigger] ta->Tuple_0[i], tb->Tuple_0[i], (d - 1) as nat)
        } else { false }
    }
}
/// `<` `<=` `>` `>=`: number-number, str-str; tuples of equal length element-wise
spec fn cmp_ok(m: Seq<Type>, a: TyID, b: TyID, d: nat) -> bool decreases d {
    if d == 0 { true } else {
        match (m[a.0 as int], m[b.0 as int]) {
            (Type::Unknown, _) => true,
            (_, Type::Unknown) => true,
            (Type::Float, Type::Float) | (Type::Float, Type::Int) | (Type::Int, Type::Float) | (Type::Int, Type::Int) => true,
            (Type::Str, Type::Str) => true,
            (Type::Tuple(x), Type::Tuple(y)) => x.len() == y.len()
                && forall|i: int| 0 <= i < x.len() ==> cmp_ok(m, #[trigger] x[i], y[i], (d - 1) as nat),
            _ => false,
        }
    }
}
spec fn add_ok_all(m: Seq<Type>, a: TyID, b: TyID) -> bool { forall|d: nat| add_ok(m, a, b, d) }
spec fn arith_ok_all(m: Seq<Type>, a: TyID, b: TyID) -> bool { forall|d: nat| arith_ok(m, a, b, d) }
spec fn div_ok_all(m: Seq<Type>, a: TyID, b: TyID) -> bool { forall|d: nat| div_ok(m, a, b, d) }
spec fn cmp_ok_all(m: Seq<Type>, a: TyID, b: TyID) -> bool { forall|d: nat| cmp_ok(m, a, b, d) }

proof fn lemma_add_elem(m: Seq<Type>, a: TyID, b: TyID, k: int)
    requires m[a.0 as int] is Tuple, m[b.0 as int] is Tuple, 0 <= k < m[a.0 as int]->Tuple_0.len(),
        m[a.0 as int]->Tuple_0.len() == m[b.0 as int]->Tuple_0.len(),
    ensures add_ok_all(m, a, b) ==> add_ok_all(m, m[a.0 as int]->Tuple_0[k], m[b.0 as int]->Tuple_0[k])
{
    if add_ok_all(m, a, b) {
        assert forall|d: nat| add_ok(m, m[a.0 as int]->Tuple_0[k], m[b.0 as int]->Tuple_0[k], d) by {
            assert(add_ok(m, a, b, d + 1));
        }
    }
}
proof fn lemma_add_intro(m: Seq<Type>, a: TyID, b: TyID)
    requires m[a.0 as int] is Tuple, m[b.0 as int] is Tuple, m[a.0 as int]->Tuple_0.len() == m[b.0 as int]->Tuple_0.len(),
        forall|i: int| 0 <= i < m[a.0 as int]->Tuple_0.len() ==> #[trigger] add_ok_all(m, m[a.0 as int]->Tuple_0[i], m[b.0 as int]->Tuple_0[i]),
    ensures add_ok_all(m, a, b)
{
    assert forall|d: nat| add_ok(m, a, b, d) by {
        if d > 0 {
            assert forall|i: int| 0 <= i < m[a.0 as int]->Tuple_0.len() implies add_ok(m, #[trigger] m[a.0 as int]->Tuple_0[i], m[b.0 as int]->Tuple_0[i], (d - 1) as nat) by {
                assert(add_ok_all(m, m[a.0 as int]->Tuple_0[i], m[b.0 as int]->Tuple_0[i]));
            }
        }
    }
}


proof fn lemma_arith_elem(m: Seq<Type>, a: TyID, b: TyID, k: int)
    requires m[a.0 as int] is Tuple, m[b.0 as int] is Tuple, 0 <= k < m[a.0 as int]->Tuple_0.len(),
        m[a.0 as int]->Tuple_0.len() == m[b.0 as int]->Tuple_0.len(),
    ensures arith_ok_all(m, a, b) ==> arith_ok_all(m, m[a.0 as int]->Tuple_0[k], m[b.0 as int]->Tuple_0[k])
{
    if arith_ok_all(m, a, b) {
        assert forall|d: nat| arith_ok(m, m[a.0 as int]->Tuple_0[k], m[b.0 as int]->Tuple_0[k], d) by {
            assert(arith_ok(m, a, b, d + 1));
        }
    }
}
proof fn lemma_arith_intro(m: Seq<Type>, a: TyID, b: TyID)
    requires m[a.0 as int] is Tuple, m[b.0 as int] is Tuple, m[a.0 as int]->Tuple_0.len() == m[b.0 as int]->Tuple_0.len(),
        forall|i: int| 0 <= i < m[a.0 as int]->Tuple_0.len() ==> #[trigger] arith_ok_all(m, m[a.0 as int]->Tuple_0[i], m[b.0 as int]->Tuple_0[i]),
    ensures arith_ok_all(m, a, b)
{
    assert forall|d: nat| arith_ok(m, a, b, d) by {
        if d > 0 {
            assert forall|i: int| 0 <= i < m[a.0 as int]->Tuple_0.len() implies arith_ok(m, #[trigger] m[a.0 as int]->Tuple_0[i], m[b.0 as int]->Tuple_0[i], (d - 1) as nat) by {
                assert(arith_ok_all(m, m[a.0 as int]->Tuple_0[i], m[b.0 as int]->Tuple_0[i]));
            }
        }
    }
}

proof fn lemma_div_elem(m: Seq<Type>, a: TyID, b: TyID, k: int)
    requires m[a.0 as int] is Tuple, m[b.0 as int] is Tuple, 0 <= k < m[a.0 as int]->Tuple_0.len(),
        m[a.0 as int]->Tuple_0.len() == m[b.0 as int]->Tuple_0.len(),
    ensures div_ok_all(m, a, b) ==> div_ok_all(m, m[a.0 as int]->Tuple_0[k], m[b.0 as int]->Tuple_0[k])
{
    if div_ok_all(m, a, b) {
        assert forall|d: nat| div_ok(m, m[a.0 as int]->Tuple_0[k], m[b.0 as int]->Tuple_0[k], d) by {
            assert(div_ok(m, a, b, d + 1));
        }
    }
}
proof fn lemma_div_intro(m: Seq<Type>, a: TyID, b: TyID)
    requires m[a.0 as int] is Tuple, m[b.0 as int] is Tuple, m[a.0 as int]->Tuple_0.len() == m[b.0 as int]->Tuple_0.len(),
        forall|i: int| 0 <= i < m[a.0 as int]->Tuple_0.len() ==> #[trigger] div_ok_all(m, m[a.0 as int]->Tuple_0[i], m[b.0 as int]->Tuple_0[i]),
    ensures div_ok_all(m, a, b)
{
    assert forall|d: nat| div_ok(m, a, b, d) by {
        if d > 0 {
            assert forall|i: int| 0 <= i < m[a.0 as int]->Tuple_0.len() implies div_ok(m, #[trigger] m[a.0 as int]->Tuple_0[i], m[b.0 as int]->Tuple_0[i], (d - 1) as nat) by {
                assert(div_ok_all(m, m[a.0 as int]->Tuple_0[i], m[b.0 as int]->Tuple_0[i]));
            }
        }
    }
}

proof fn lemma_cmp_elem(m: Seq<Type>, a: TyID, b: TyID, k: int)
    requires m[a.0 as int] is Tuple, m[b.0 as int] is Tuple, 0 <= k < m[a.0 as int]->Tuple_0.len(),
        m[a.0 as int]->Tuple_0.len() == m[b.0 as int]->Tuple_0.len(),
    ensures cmp_ok_all(m, a, b) ==> cmp_ok_all(m, m[a.0 as int]->Tuple_0[k], m[b.0 as int]->Tuple_0[k])
{
    if cmp_ok_all(m, a, b) {
        assert forall|d: nat| cmp_ok(m, m[a.0 as int]->Tuple_0[k], m[b.0 as int]->Tuple_0[k], d) by {
            assert(cmp_ok(m, a, b, d + 1));
        }
    }
}
proof fn lemma_cmp_intro(m: Seq<Type>, a: TyID, b: TyID)
    requires m[a.0 as int] is Tuple, m[b.0 as int] is Tuple, m[a.0 as int]->Tuple_0.len() == m[b.0 as int]->Tuple_0.len(),
        forall|i: int| 0 <= i < m[a.0 as int]->Tuple_0.len() ==> #[trigger] cmp_ok_all(m, m[a.0 as int]->Tuple_0[i], m[b.0 as int]->Tuple_0[i]),
    ensures cmp_ok_all(m, a, b)
{
    assert forall|d: nat| cmp_ok(m, a, b, d) by {
        if d > 0 {
            assert forall|i: int| 0 <= i < m[a.0 as int]->Tuple_0.len() implies cmp_ok(m, #[trigger] m[a.0 as int]->Tuple_0[i], m[b.0 as int]->Tuple_0[i], (d - 1) as nat) by {
                assert(cmp_ok_all(m, m[a.0 as int]->Tuple_0[i], m[b.0 as int]->Tuple_0[i]));
            }
        }
    }
}

proof fn lemma_div_scalar_elem(m: Seq<Type>, a: TyID, b: TyID, k: int)
    requires m[a.0 as int] is Tuple, is_num(m[b.0 as int]), 0 <= k < m[a.0 as int]->Tuple_0.len(),
    ensures div_ok_all(m, a, b) ==> div_ok_all(m, m[a.0 as int]->Tuple_0[k], b)
{
    if div_ok_all(m, a, b) {
        assert forall|d: nat| div_ok(m, m[a.0 as int]->Tuple_0[k], b, d) by {
            assert(div_ok(m, a, b, d + 1));
        }
    }
}
proof fn lemma_div_scalar_intro(m: Seq<Type>, a: TyID, b: TyID)
    requires m[a.0 as int] is Tuple, is_num(m[b.0 as int]),
        forall|i: int| 0 <= i < m[a.0 as int]->Tuple_0.len() ==> #[trigger] div_ok_all(m, m[a.0 as int]->Tuple_0[i], b),
    ensures div_ok_all(m, a, b)
{
    assert forall|d: nat| div_ok(m, a, b, d) by {
        if d > 0 {
            assert forall|i: int| 0 <= i < m[a.0 as int]->Tuple_0.len() implies div_ok(m, #[trigger] m[a.0 as int]->Tuple_0[i], b, (d - 1) as nat) by {
                assert(div_ok_all(m, m[a.0 as int]->Tuple_0[i], b));
            }
        }
    }
}

// D-msg: error construction is opaque; the span argument is kept. (The real macros also call
// self.span_file(&span) and, for the message, self.bake_type(..): both dropped - bake_type only
// runs `find` (path compression), span_file needs spans_in_range, see assumptions.)
#[verifier::external_body]
fn opaque_errs(span: Span) -> (r: Vec<Error>) ensures r.len() == 1, r[0].span() == span { unimplemented!() }
// D-msg: `unreachable!(..)` with a formatted message becomes the message-free obligation `false`
macro_rules! unreachable { ($($t:tt)*) => { return vstd::pervasive::unreached() }; }
macro_rules! err_type_error {
    ($self:expr, $span:expr, $($rest:tt)*) => { Err(opaque_errs($span)) };
}

broadcast use vstd::std_specs::btree::group_btree_axioms;

/// assumption A-derive-ord-constraint: `derive(PartialEq, Eq, PartialOrd, Ord)` on `Constraint`
/// is a lawful total order, which is what the BTreeMap specification of vstd asks of a key type
#[verifier::external_body]
proof fn axiom_constraint_key_order() ensures vstd::std_specs::btree::key_obeys_cmp_spec::<Constraint>() {}

/// deferred constraints are never dropped: whatever was recorded on (the class of) an id is still
/// recorded on its class
spec fn cons_mono(a: Seq<TypeNode>, b: Seq<TypeNode>) -> bool {
    &&& a.len() <= b.len()
    &&& forall|i: int, c: Constraint| 0 <= i < a.len() && #[trigger] cons_of(a, i).contains(c) ==> cons_of(b, i).contains(c)
}
spec fn cons_from(a: Seq<TypeNode>, b: Seq<TypeNode>) -> bool {
    forall|o: Seq<TypeNode>| #[trigger] cons_mono(o, a) ==> cons_mono(o, b)
}
proof fn lemma_cons_refl(a: Seq<TypeNode>) ensures cons_mono(a, a) {}
proof fn lemma_cons_from(a: Seq<TypeNode>, b: Seq<TypeNode>)
    requires cons_mono(a, b),
    ensures cons_from(a, b),
{
    assert forall|o: Seq<TypeNode>| #[trigger] cons_mono(o, a) implies cons_mono(o, b) by {
        assert forall|i: int, c: Constraint| 0 <= i < o.len() && #[trigger] cons_of(o, i).contains(c) implies cons_of(b, i).contains(c) by {
            assert(cons_of(a, i).contains(c));
        }
    }
}
/// a step that keeps partition and payload keeps every recorded constraint
proof fn lemma_cons_same_graph(a: Seq<TypeNode>, b: Seq<TypeNode>)
    requires same_graph(a, b), wf_forest(a),
    ensures cons_from(a, b),
{
    assert(cons_mono(a, b)) by {
        assert forall|i: int, c: Constraint| 0 <= i < a.len() && #[trigger] cons_of(a, i).contains(c) implies cons_of(b, i).contains(c) by {
            assert(rep0(b, i) == rep0(a, i));
            lemma_rep0_props(a, i);
            assert(b[rep0(a, i)].constraints == a[rep0(a, i)].constraints);
        }
    }
    lemma_cons_from(a, b);
}
/// same partition and same class types (constraints may differ)
spec fn same_partition_and_types(a: Seq<TypeNode>, b: Seq<TypeNode>) -> bool {
    &&& a.len() == b.len()
    &&& forall|i: int| 0 <= i < a.len() ==> #[trigger] rep0(b, i) == rep0(a, i)
    &&& forall|i: int| 0 <= i < a.len() ==> (#[trigger] b[i]).ty == a[i].ty && b[i].size == a[i].size
}
/// deferred constraints (key set) of the class of `i`
spec fn cons_of(ts: Seq<TypeNode>, i: int) -> Set<Constraint> { ts[rep0(ts, i)].constraints@.dom() }

// ---- a known type keeps its shape: the third component of the frame ---------------------------------
/// the constructor of a type
spec fn head(t: Type) -> int {
    match t {
        Type::Unknown => 0, Type::Ty => 1, Type::Invalid => 2, Type::Void => 3, Type::Nil => 4, Type::Int => 5,
        Type::Float => 6, Type::Bool => 7, Type::Str => 8, Type::Tuple(..) => 9, Type::List(..) => 10,
        Type::Function(..) => 11, Type::Blob(..) => 12, Type::ExternBlob(..) => 13, Type::Enum(..) => 14,
    }
}
/// same constructor; the same length for tuples; the same field names for blobs, the same
/// variant names for enums; the same number of parameters for functions
spec fn shape_eq(x: Type, y: Type) -> bool {
    &&& head(x) == head(y)
    &&& (x is Tuple ==> x->Tuple_0.len() == y->Tuple_0.len())
    &&& (x is Blob ==> x->Blob_2@.dom() == y->Blob_2@.dom())
    &&& (x is Enum ==> x->Enum_2@.dom() == y->Enum_2@.dom())
    &&& (x is Function ==> x->Function_0.len() == y->Function_0.len())
}
/// type of the class of node `i`
spec fn cty(ts: Seq<TypeNode>, i: int) -> Type { ts[rep0(ts, i)].ty }
/// whatever was known stays known, with the same shape (Unknown may become anything)
spec fn heads_kept(a: Seq<TypeNode>, b: Seq<TypeNode>) -> bool {
    &&& a.len() <= b.len()
    &&& forall|i: int| 0 <= i < a.len() && !(#[trigger] cty(a, i) is Unknown) ==> shape_eq(cty(a, i), cty(b, i))
}
spec fn heads_from(a: Seq<TypeNode>, b: Seq<TypeNode>) -> bool {
    forall|o: Seq<TypeNode>| #[trigger] heads_kept(o, a) ==> heads_kept(o, b)
}
proof fn lemma_heads_refl(a: Seq<TypeNode>) ensures heads_kept(a, a) {}
proof fn lemma_heads_from(a: Seq<TypeNode>, b: Seq<TypeNode>)
    requires heads_kept(a, b),
    ensures heads_from(a, b),
{
    assert forall|o: Seq<TypeNode>| #[trigger] heads_kept(o, a) implies heads_kept(o, b) by {
        assert forall|i: int| 0 <= i < o.len() && !(#[trigger] cty(o, i) is Unknown) implies shape_eq(cty(o, i), cty(b, i)) by {
            assert(shape_eq(cty(o, i), cty(a, i)));
            assert(!(cty(a, i) is Unknown));
        }
    }
}
/// a step that keeps partition and node types keeps every class type
proof fn lemma_heads_same_types(a: Seq<TypeNode>, b: Seq<TypeNode>)
    requires same_partition_and_types(a, b), wf_forest(a),
    ensures heads_from(a, b),
{
    assert(heads_kept(a, b)) by {
        assert forall|i: int| 0 <= i < a.len() && !(#[trigger] cty(a, i) is Unknown) implies shape_eq(cty(a, i), cty(b, i)) by {
            assert(rep0(b, i) == rep0(a, i));
            lemma_rep0_props(a, i);
            assert(b[rep0(a, i)].ty == a[rep0(a, i)].ty);
        }
    }
    lemma_heads_from(a, b);
}


// ---- structural rules (C04, C05), deep: through every expression, branch, block and closure ----------
spec fn target_ok(e: Expression, n: int) -> bool {
    match e { Expression::Read { var, .. } => var < n, _ => true }
}
/// `break`/`continue` only inside a loop OF THE SAME FUNCTION: a loop body is checked with `true`,
/// a function body with `false`, everything else inherits
spec fn e_brk(e: Expression, l: bool) -> bool decreases e {
    match e {
        Expression::Read { .. } => true,
        Expression::Variant { value, .. } => e_brk(*value, l),
        Expression::Call { function, args, .. } => e_brk(*function, l) && forall|i: int| 0 <= i < args.len() ==> e_brk(#[trigger] args[i], l),
        Expression::BlobAccess { value, .. } => e_brk(*value, l),
        Expression::Index { value, index, .. } => e_brk(*value, l) && e_brk(*index, l),
        Expression::BinOp { a, b, .. } => e_brk(*a, l) && e_brk(*b, l),
        Expression::UniOp { a, .. } => e_brk(*a, l),
        Expression::If { branches, .. } => forall|i: int| 0 <= i < branches.len() ==> ib_brk(#[trigger] branches[i], l),
        Expression::Case { to_match, branches, fall_through, .. } => e_brk(*to_match, l)
            && (forall|i: int| 0 <= i < branches.len() ==> cb_brk(#[trigger] branches[i], l))
            && (match fall_through { Some(b) => forall|i: int| 0 <= i < b.len() ==> s_brk(#[trigger] b[i], l), None => true }),
        Expression::Function { body, .. } => forall|i: int| 0 <= i < body.len() ==> s_brk(#[trigger] body[i], false),
        Expression::Blob { fields, .. } => forall|i: int| 0 <= i < fields.len() ==> e_brk((#[trigger] fields[i]).1, l),
        Expression::Collection { values, .. } => forall|i: int| 0 <= i < values.len() ==> e_brk(#[trigger] values[i], l),
        Expression::Float(..) | Expression::Int(..) | Expression::Str(..) | Expression::Bool(..) | Expression::Nil(..) => true,
    }
}
spec fn ib_brk(b: IfBranch, l: bool) -> bool decreases b {
    (match b.condition { Some(c) => e_brk(c, l), None => true }) && forall|i: int| 0 <= i < b.body.len() ==> s_brk(#[trigger] b.body[i], l)
}
spec fn cb_brk(b: CaseBranch, l: bool) -> bool decreases b {
    forall|i: int| 0 <= i < b.body.len() ==> s_brk(#[trigger] b.body[i], l)
}
spec fn s_brk(s: Statement, l: bool) -> bool decreases s {
    match s {
        Statement::Assignment { target, value, .. } => e_brk(target, l) && e_brk(value, l),
        Statement::Blob { .. } | Statement::Enum { .. } | Statement::ExternalDefinition { .. } => true,
        Statement::Definition { value, .. } => e_brk(value, l),
        Statement::Loop { condition, body, .. } => e_brk(condition, l) && forall|i: int| 0 <= i < body.len() ==> s_brk(#[trigger] body[i], true),
        Statement::Break(_) | Statement::Continue(_) => l,
        Statement::Unreachable(_) => true,
        Statement::Ret { value, .. } => match value { Some(v) => e_brk(v, l), None => true },
        Statement::Block { statements, .. } => forall|i: int| 0 <= i < statements.len() ==> s_brk(#[trigger] statements[i], l),
        Statement::StatementExpression { value, .. } => e_brk(value, l),
    }
}
/// the deferred constraint a binary operator records on BOTH operand classes (each mentions the other)
/// same constructor, and the same length for tuples
spec fn shape0_eq(x: Type, y: Type) -> bool { head(x) == head(y) && (x is Tuple ==> x->Tuple_0.len() == y->Tuple_0.len()) }
/// head-level operator tables (they only look at constructors and tuple lengths)
spec fn add_heads(x: Type, y: Type) -> bool { shape0_eq(x, y) && (x is Float || x is Int || x is Str || x is Tuple) }
spec fn arith_heads(x: Type, y: Type) -> bool { shape0_eq(x, y) && (x is Float || x is Int || x is Tuple) }
spec fn cmp_heads(x: Type, y: Type) -> bool { (is_num(x) && is_num(y)) || (x is Str && y is Str) || (x is Tuple && shape0_eq(x, y)) }
spec fn div_heads(x: Type, y: Type) -> bool { (is_num(x) && is_num(y)) || (x is Tuple && is_num(y)) || (x is Tuple && shape0_eq(x, y)) }
/// the full (deep) operator tables imply the head-level ones
broadcast proof fn lemma_add_heads(m: Seq<Type>, a: TyID, b: TyID)
    ensures #[trigger] add_ok_all(m, a, b) ==> m[a.0 as int] is Unknown || m[b.0 as int] is Unknown || add_heads(m[a.0 as int], m[b.0 as int]),
{ if add_ok_all(m, a, b) { assert(add_ok(m, a, b, 1)); } }
broadcast proof fn lemma_arith_heads(m: Seq<Type>, a: TyID, b: TyID)
    ensures #[trigger] arith_ok_all(m, a, b) ==> m[a.0 as int] is Unknown || m[b.0 as int] is Unknown || arith_heads(m[a.0 as int], m[b.0 as int]),
{ if arith_ok_all(m, a, b) { assert(arith_ok(m, a, b, 1)); } }
broadcast proof fn lemma_div_heads(m: Seq<Type>, a: TyID, b: TyID)
    ensures #[trigger] div_ok_all(m, a, b) ==> m[a.0 as int] is Unknown || m[b.0 as int] is Unknown || div_heads(m[a.0 as int], m[b.0 as int]),
{ if div_ok_all(m, a, b) { assert(div_ok(m, a, b, 1)); } }
broadcast proof fn lemma_cmp_heads(m: Seq<Type>, a: TyID, b: TyID)
    ensures #[trigger] cmp_ok_all(m, a, b) ==> m[a.0 as int] is Unknown || m[b.0 as int] is Unknown || cmp_heads(m[a.0 as int], m[b.0 as int]),
{ if cmp_ok_all(m, a, b) { assert(cmp_ok(m, a, b, 1)); } }
broadcast group group_heads { lemma_add_heads, lemma_arith_heads, lemma_div_heads, lemma_cmp_heads }
/// the types that are already known contradict the deferred constraint `c` recorded on `a`
/// (constructors and tuple lengths only; an Unknown operand decides nothing yet)
spec fn con_violated(ts: Seq<TypeNode>, a: TyID, c: Constraint) -> bool {
    let ta = ty_of(ts, a);
    !(ta is Unknown) && match c {
        Constraint::Add(b) => !(ty_of(ts, b) is Unknown) && !add_heads(ta, ty_of(ts, b)),
        Constraint::Sub(b) => !(ty_of(ts, b) is Unknown) && !arith_heads(ta, ty_of(ts, b)),
        Constraint::Mul(b) => !(ty_of(ts, b) is Unknown) && !arith_heads(ta, ty_of(ts, b)),
        Constraint::DivTop(b) => !(ty_of(ts, b) is Unknown) && !div_heads(ta, ty_of(ts, b)),
        Constraint::DivBot(b) => !(ty_of(ts, b) is Unknown) && !div_heads(ty_of(ts, b), ta),
        Constraint::DivRes(x) => is_num(ty_of(ts, x)) && !(ta is Float),
        Constraint::Equ(b) => !(ty_of(ts, b) is Unknown) && !shape0_eq(ta, ty_of(ts, b)),
        Constraint::Cmp(b) => !(ty_of(ts, b) is Unknown) && !cmp_heads(ta, ty_of(ts, b)),
        Constraint::CmpEqu(b) => !(ty_of(ts, b) is Unknown) && (!shape0_eq(ta, ty_of(ts, b)) || !cmp_heads(ta, ty_of(ts, b))),
        Constraint::Neg => !(ta is Int || ta is Float),
        Constraint::ConstantIndex(i, _) => !(ta is Tuple) || i >= ta->Tuple_0.len(),
        Constraint::Field(name, _) => !(ta is Blob || ta is ExternBlob) || (ta is Blob && !ta->Blob_2@.dom().contains(name)),
        Constraint::Num => !(ta is Int || ta is Float),
        Constraint::Enum => !(ta is Enum),
        Constraint::Variant(v, _) => !(ta is Enum) || !ta->Enum_2@.dom().contains(v),
        Constraint::TotalEnum(_) => !(ta is Enum),
        Constraint::Variable => ta is Void,
    }
}
/// the deferred constraint a `case` arm puts on the matched value: the variant exists, and its
/// payload is the type of the arm's binding (if it binds one)
spec fn variant_con(b: CaseBranch, vs: Seq<TypeVariable>) -> Constraint {
    Constraint::Variant(b.pattern.name, match b.variable { Some(v) => Some(vs[v as int].ty), None => None })
}
/// the names of the first n arms
spec fn arm_name_in(bs: Seq<CaseBranch>, n: int, s: String) -> bool {
    exists|k: int| 0 <= k < n && #[trigger] bs[k].pattern.name == s
}
spec fn arm_names(names: Set<String>, bs: Seq<CaseBranch>, n: int) -> bool {
    forall|s: String| #[trigger] names.contains(s) <==> arm_name_in(bs, n, s)
}
/// what checking a `case` leaves behind on the matched value: it is an enum, every arm's variant is
/// required, and without `else` the arms are required to be exactly the variants
spec fn case_recorded(ts: Seq<TypeNode>, e: Expression, vs: Seq<TypeVariable>) -> bool {
    match e {
        Expression::Case { branches, fall_through, .. } => exists|x: TyID| (x.0 as int) < ts.len()
            && #[trigger] cons_of(ts, x.0 as int).contains(Constraint::Enum)
            && (forall|k: int| 0 <= k < branches@.len() ==> cons_of(ts, x.0 as int).contains(variant_con(#[trigger] branches@[k], vs)))
            && (fall_through is None ==> exists|names: BTreeSet<String>| #[trigger] cons_of(ts, x.0 as int).contains(Constraint::TotalEnum(names))
                    && arm_names(names@, branches@, branches@.len() as int)),
        _ => true,
    }
}
/// the field names written in a blob instance
spec fn given_name(fields: Seq<(String, Expression)>, name: String) -> bool {
    exists|k: int| 0 <= k < fields.len() && (#[trigger] fields[k]).0 == name
}
/// a blob instance that is accepted names exactly the fields of the blob it instantiates
/// (the type of the blob's variable as it is known before the expression is checked)
spec fn blob_instance_ok(ts0: Seq<TypeNode>, vs: Seq<TypeVariable>, e: Expression) -> bool {
    match e {
        Expression::Blob { blob, fields, .. } => ty_of(ts0, vs[blob as int].ty) is Blob ==>
            forall|name: String| #[trigger] ty_of(ts0, vs[blob as int].ty)->Blob_2@.dom().contains(name) <==> given_name(fields@, name),
        _ => true,
    }
}
/// a variant construction / blob instance that contradicts what is already known about the type of
/// the enum / blob variable it names: not an enum, an enum without that variant, not a blob, an externblob
spec fn decl_clash(ts0: Seq<TypeNode>, vs: Seq<TypeVariable>, e: Expression) -> bool {
    match e {
        Expression::Variant { ty, variant, .. } => {
            let t = ty_of(ts0, vs[ty as int].ty);
            !(t is Unknown) && (!(t is Enum) || !t->Enum_2@.dom().contains(variant))
        }
        Expression::Blob { blob, .. } => {
            let t = ty_of(ts0, vs[blob as int].ty);
            !(t is Unknown) && !(t is Blob)
        }
        _ => false,
    }
}
/// a use of a variable that contradicts what is already known about the variable's type: a field the
/// blob does not have (or not a blob), a constant index outside the tuple (or not a tuple), a call
/// of a non-function or with the wrong number of arguments
spec fn read_clash(ts0: Seq<TypeNode>, vs: Seq<TypeVariable>, e: Expression) -> bool {
    match e {
        Expression::BlobAccess { value, field, .. } => *value is Read && {
            let t = ty_of(ts0, vs[value->Read_var as int].ty);
            !(t is Unknown) && (!(t is Blob || t is ExternBlob) || (t is Blob && !t->Blob_2@.dom().contains(field)))
        },
        Expression::Index { value, index, .. } => *value is Read && *index is Int && {
            let t = ty_of(ts0, vs[value->Read_var as int].ty);
            !(t is Unknown) && (!(t is Tuple) || index->Int_0 >= t->Tuple_0.len())
        },
        Expression::Call { function, args, .. } => *function is Read && {
            let t = ty_of(ts0, vs[function->Read_var as int].ty);
            !(t is Unknown) && (!(t is Function) || t->Function_0.len() != args@.len())
        },
        _ => false,
    }
}
/// the type constructor of a literal
spec fn lit_head(e: Expression) -> Option<int> {
    match e {
        Expression::Nil(..) => Some(4int), Expression::Int(..) => Some(5int), Expression::Float(..) => Some(6int),
        Expression::Bool(..) => Some(7int), Expression::Str(..) => Some(8int), _ => None,
    }
}
/// the documented operator tables on literal operands (nil, int, float, bool, str)
spec fn lit_op_ok(op: BinOp, x: int, y: int) -> bool {
    match op {
        BinOp::Add => x == y && (x == 5 || x == 6 || x == 8),
        BinOp::Sub | BinOp::Mul => x == y && (x == 5 || x == 6),
        BinOp::Div => (x == 5 || x == 6) && (y == 5 || y == 6),
        BinOp::Equals | BinOp::NotEquals | BinOp::AssertEq => x == y,
        BinOp::Greater | BinOp::Less => ((x == 5 || x == 6) && (y == 5 || y == 6)) || (x == 8 && y == 8),
        BinOp::GreaterEqual | BinOp::LessEqual => x == y && (x == 5 || x == 6 || x == 8),
        BinOp::And | BinOp::Or => x == 7 && y == 7,
        BinOp::Nop => true,
    }
}
/// an `if` arm whose condition is a literal that is not a bool
spec fn cond_clash(b: IfBranch) -> bool {
    b.condition is Some && lit_head(b.condition->Some_0) is Some && lit_head(b.condition->Some_0)->Some_0 != 7
}
/// a construct applied to literals (nil, int, float, bool, str) of a type it does not accept:
/// an operator on incompatible operands, `not` of a non-bool, a call / field access / constant index
/// of a literal, a non-bool literal as condition, a list of literals of different types
spec fn lit_clash(e: Expression) -> bool {
    match e {
        Expression::BinOp { a, b, op, .. } => lit_head(*a) is Some && lit_head(*b) is Some && !lit_op_ok(op, lit_head(*a)->Some_0, lit_head(*b)->Some_0),
        // `not` of a non-bool; unary `-` of anything but a number (C03: "`-` on a string")
        Expression::UniOp { a, op, .. } => lit_head(*a) is Some && ((op is Not && lit_head(*a)->Some_0 != 7)
            || (op is Neg && lit_head(*a)->Some_0 != 5 && lit_head(*a)->Some_0 != 6)),
        Expression::Call { function, .. } => lit_head(*function) is Some,
        Expression::BlobAccess { value, .. } => lit_head(*value) is Some,
        Expression::Index { value, .. } => lit_head(*value) is Some,
        Expression::If { branches, .. } => exists|k: int| 0 <= k < branches@.len() && cond_clash(#[trigger] branches@[k]),
        Expression::Collection { collection, values, .. } => collection is List && exists|i: int, j: int| 0 <= i < j < values@.len()
            && lit_head(#[trigger] values@[i]) is Some && lit_head(#[trigger] values@[j]) is Some && lit_head(values@[i])->Some_0 != lit_head(values@[j])->Some_0,
        _ => false,
    }
}
/// what type checking an operator expression leaves behind in the constraint store (for every
/// initial store: so a forgotten or misplaced add_constraint fails the clause). The ids are the
/// operands' type ids, which the function does not return; they are existentially quantified.
spec fn op_recorded(ts: Seq<TypeNode>, e: Expression, result: TyID) -> bool {
    match e {
        Expression::BinOp { op, .. } => match op {
            BinOp::Div => exists|a: TyID, b: TyID, c: TyID| (a.0 as int) < ts.len() && (b.0 as int) < ts.len() && (c.0 as int) < ts.len()
                && #[trigger] cons_of(ts, a.0 as int).contains(Constraint::DivTop(b)) && #[trigger] cons_of(ts, b.0 as int).contains(Constraint::DivBot(a))
                && #[trigger] cons_of(ts, c.0 as int).contains(Constraint::DivRes(a)),
            BinOp::And | BinOp::Or | BinOp::Nop => true,
            BinOp::Add => exists|a: TyID, b: TyID| (a.0 as int) < ts.len() && (b.0 as int) < ts.len()
                && #[trigger] cons_of(ts, a.0 as int).contains(Constraint::Add(b)) && #[trigger] cons_of(ts, b.0 as int).contains(Constraint::Add(a)),
            BinOp::Sub => exists|a: TyID, b: TyID| (a.0 as int) < ts.len() && (b.0 as int) < ts.len()
                && #[trigger] cons_of(ts, a.0 as int).contains(Constraint::Sub(b)) && #[trigger] cons_of(ts, b.0 as int).contains(Constraint::Sub(a)),
            BinOp::Mul => exists|a: TyID, b: TyID| (a.0 as int) < ts.len() && (b.0 as int) < ts.len()
                && #[trigger] cons_of(ts, a.0 as int).contains(Constraint::Mul(b)) && #[trigger] cons_of(ts, b.0 as int).contains(Constraint::Mul(a)),
            BinOp::Equals | BinOp::AssertEq | BinOp::NotEquals => exists|a: TyID, b: TyID| (a.0 as int) < ts.len() && (b.0 as int) < ts.len()
                && #[trigger] cons_of(ts, a.0 as int).contains(Constraint::Equ(b)) && #[trigger] cons_of(ts, b.0 as int).contains(Constraint::Equ(a)),
            BinOp::Greater | BinOp::Less => exists|a: TyID, b: TyID| (a.0 as int) < ts.len() && (b.0 as int) < ts.len()
                && #[trigger] cons_of(ts, a.0 as int).contains(Constraint::Cmp(b)) && #[trigger] cons_of(ts, b.0 as int).contains(Constraint::Cmp(a)),
            BinOp::GreaterEqual | BinOp::LessEqual => exists|a: TyID, b: TyID| (a.0 as int) < ts.len() && (b.0 as int) < ts.len()
                && #[trigger] cons_of(ts, a.0 as int).contains(Constraint::CmpEqu(b)) && #[trigger] cons_of(ts, b.0 as int).contains(Constraint::CmpEqu(a)),
        },
        Expression::UniOp { op, .. } => op is Neg ==> exists|x: TyID| (x.0 as int) < ts.len() && #[trigger] cons_of(ts, x.0 as int).contains(Constraint::Neg),
        _ => true,
    }
}
/// one-level (non-recursive) view of the two structural rules, used by `expression`, which hides the
/// recursive predicates: what must hold of the children for the node to satisfy e_brk and e_pur
spec fn e_both(vs: Seq<TypeVariable>, e: Expression, l: bool, p: bool) -> bool { e_brk(e, l) && e_pur(vs, e, p) }
spec fn all_both(vs: Seq<TypeVariable>, ss: Seq<Statement>, l: bool, p: bool) -> bool { all_brk(ss, l) && all_pur(vs, ss, p) }
spec fn ib_str(vs: Seq<TypeVariable>, b: IfBranch, l: bool, p: bool) -> bool {
    (b.condition is Some ==> e_both(vs, b.condition->Some_0, l, p)) && all_both(vs, b.body@, l, p)
}
spec fn cb_str(vs: Seq<TypeVariable>, b: CaseBranch, l: bool, p: bool) -> bool { all_both(vs, b.body@, l, p) }
spec fn e_str_children(vs: Seq<TypeVariable>, e: Expression, l: bool, p: bool) -> bool {
    match e {
        Expression::Read { var, .. } => !(p && vs[var as int].kind is Mutable),
        Expression::Variant { value, .. } => e_both(vs, *value, l, p),
        Expression::Call { function, args, .. } => e_both(vs, *function, l, p) && forall|i: int| 0 <= i < args@.len() ==> e_both(vs, #[trigger] args@[i], l, p),
        Expression::BlobAccess { value, .. } => e_both(vs, *value, l, p),
        Expression::Index { value, index, .. } => e_both(vs, *value, l, p) && e_both(vs, *index, l, p),
        Expression::BinOp { a, b, .. } => e_both(vs, *a, l, p) && e_both(vs, *b, l, p),
        Expression::UniOp { a, .. } => e_both(vs, *a, l, p),
        Expression::If { branches, .. } => forall|i: int| 0 <= i < branches@.len() ==> ib_str(vs, #[trigger] branches@[i], l, p),
        Expression::Case { to_match, branches, fall_through, .. } => e_both(vs, *to_match, l, p)
            && (forall|i: int| 0 <= i < branches@.len() ==> cb_str(vs, #[trigger] branches@[i], l, p))
            && (fall_through is Some ==> all_both(vs, fall_through->Some_0@, l, p)),
        Expression::Function { body, pure, .. } => all_both(vs, body@, false, p || pure),
        Expression::Blob { fields, .. } => forall|i: int| 0 <= i < fields@.len() ==> e_both(vs, (#[trigger] fields@[i]).1, l, p),
        Expression::Collection { values, .. } => forall|i: int| 0 <= i < values@.len() ==> e_both(vs, #[trigger] values@[i], l, p),
        Expression::Float(..) | Expression::Int(..) | Expression::Str(..) | Expression::Bool(..) | Expression::Nil(..) => true,
    }
}
proof fn lemma_e_str_intro(vs: Seq<TypeVariable>, e: Expression, l: bool, p: bool)
    requires e_str_children(vs, e, l, p),
    ensures e_brk(e, l), e_pur(vs, e, p),
{
    match e {
        Expression::Call { function, args, .. } => {
            assert forall|i: int| 0 <= i < args.len() implies e_brk(#[trigger] args[i], l) by { assert(e_both(vs, args@[i], l, p)); }
            assert forall|i: int| 0 <= i < args.len() implies e_pur(vs, #[trigger] args[i], p) by { assert(e_both(vs, args@[i], l, p)); }
        }
        Expression::If { branches, .. } => {
            assert forall|i: int| 0 <= i < branches.len() implies ib_brk(#[trigger] branches[i], l) by { assert(ib_str(vs, branches@[i], l, p)); }
            assert forall|i: int| 0 <= i < branches.len() implies ib_pur(vs, #[trigger] branches[i], p) by { assert(ib_str(vs, branches@[i], l, p)); }
        }
        Expression::Case { branches, fall_through, .. } => {
            assert forall|i: int| 0 <= i < branches.len() implies cb_brk(#[trigger] branches[i], l) by { assert(cb_str(vs, branches@[i], l, p)); }
            assert forall|i: int| 0 <= i < branches.len() implies cb_pur(vs, #[trigger] branches[i], p) by { assert(cb_str(vs, branches@[i], l, p)); }
        }
        Expression::Blob { fields, .. } => {
            assert forall|i: int| 0 <= i < fields.len() implies e_brk((#[trigger] fields[i]).1, l) by { assert(e_both(vs, fields@[i].1, l, p)); }
            assert forall|i: int| 0 <= i < fields.len() implies e_pur(vs, (#[trigger] fields[i]).1, p) by { assert(e_both(vs, fields@[i].1, l, p)); }
        }
        Expression::Collection { values, .. } => {
            assert forall|i: int| 0 <= i < values.len() implies e_brk(#[trigger] values[i], l) by { assert(e_both(vs, values@[i], l, p)); }
            assert forall|i: int| 0 <= i < values.len() implies e_pur(vs, #[trigger] values[i], p) by { assert(e_both(vs, values@[i], l, p)); }
        }
        _ => {}
    }
}

/// ids collected per `if` branch are nodes of the graph
spec fn ids_below(xs: Seq<TyID>, n: int) -> bool { forall|k: int| 0 <= k < xs.len() ==> (#[trigger] xs[k]).0 < n }
spec fn tys_valid(tys: Seq<(&Span, Option<TyID>, Option<TyID>)>, n: int) -> bool {
    forall|k: int| 0 <= k < tys.len() ==> ((#[trigger] tys[k]).1 is Some ==> (tys[k].1->Some_0.0 as int) < n) && (tys[k].2 is Some ==> (tys[k].2->Some_0.0 as int) < n)
}
/// a statement that returns directly: a `ret`, or a loop / block whose statements do (returns nested inside
/// expressions - an `if`, a `case` - are the business of the expression clauses)
spec fn s_ret(s: Statement) -> bool decreases s {
    match s {
        Statement::Ret { .. } => true,
        Statement::Loop { body, .. } => exists|i: int| 0 <= i < body.len() && s_ret(#[trigger] body[i]),
        Statement::Block { statements, .. } => exists|i: int| 0 <= i < statements.len() && s_ret(#[trigger] statements[i]),
        _ => false,
    }
}
spec fn any_ret(ss: Seq<Statement>, upto: int) -> bool { exists|i: int| 0 <= i < upto && i < ss.len() && s_ret(#[trigger] ss[i]) }
/// the returns of the first `upto` branches of an `if` are all in the class of `ret` (the type the `if`
/// hands to the enclosing function as "what the code in here returns")
spec fn rets_joined(ts: Seq<TypeNode>, tys: Seq<(&Span, Option<TyID>, Option<TyID>)>, upto: int, ret: Option<TyID>) -> bool {
    forall|k: int| 0 <= k < upto && k < tys.len() && (#[trigger] tys[k]).1 is Some
        ==> ret is Some && rep0(ts, ret->Some_0.0 as int) == rep0(ts, tys[k].1->Some_0.0 as int)
}
/// one round of joining: `ret_n` is the result of unifying the i-th branch's return with `ret_b`
proof fn lemma_rets_step(ts_b: Seq<TypeNode>, ts_1: Seq<TypeNode>, ts_n: Seq<TypeNode>, tys: Seq<(&Span, Option<TyID>, Option<TyID>)>, i: int,
                         ret_b: Option<TyID>, ret_n: Option<TyID>)
    requires merges_only(ts_b, ts_1), merges_only(ts_1, ts_n), rets_joined(ts_b, tys, i, ret_b), tys_valid(tys, ts_b.len() as int),
        0 <= i < tys.len(), ret_b is Some ==> (ret_b->Some_0.0 as int) < ts_b.len(), ret_n is Some ==> (ret_n->Some_0.0 as int) < ts_1.len(),
        ret_n is None <==> (tys[i].1 is None && ret_b is None),
        tys[i].1 is Some ==> rep0(ts_1, ret_n->Some_0.0 as int) == rep0(ts_1, tys[i].1->Some_0.0 as int),
        ret_b is Some ==> rep0(ts_1, ret_n->Some_0.0 as int) == rep0(ts_1, ret_b->Some_0.0 as int),
    ensures rets_joined(ts_n, tys, i + 1, ret_n),
{
    lemma_merges_trans(ts_b, ts_1, ts_n);
    assert forall|k: int| 0 <= k < i + 1 && k < tys.len() && (#[trigger] tys[k]).1 is Some
        implies ret_n is Some && rep0(ts_n, ret_n->Some_0.0 as int) == rep0(ts_n, tys[k].1->Some_0.0 as int) by {
        if k < i {
            // joined with ret_b before, ret_b joined with ret_n now
            assert(rep0(ts_b, ret_b->Some_0.0 as int) == rep0(ts_b, tys[k].1->Some_0.0 as int));
            assert(rep0(ts_1, ret_b->Some_0.0 as int) == rep0(ts_1, tys[k].1->Some_0.0 as int));
            assert(rep0(ts_1, ret_n->Some_0.0 as int) == rep0(ts_1, tys[k].1->Some_0.0 as int));
        }
        assert(rep0(ts_n, ret_n->Some_0.0 as int) == rep0(ts_n, tys[k].1->Some_0.0 as int));
    }
}
/// later growth of the graph keeps the returns joined
proof fn lemma_rets_mono(ts_a: Seq<TypeNode>, ts_b: Seq<TypeNode>, tys: Seq<(&Span, Option<TyID>, Option<TyID>)>, upto: int, ret: Option<TyID>)
    requires merges_only(ts_a, ts_b), rets_joined(ts_a, tys, upto, ret), tys_valid(tys, ts_a.len() as int), ret is Some ==> (ret->Some_0.0 as int) < ts_a.len(),
    ensures rets_joined(ts_b, tys, upto, ret),
{}
spec fn all_brk(ss: Seq<Statement>, l: bool) -> bool { forall|i: int| 0 <= i < ss.len() ==> s_brk(#[trigger] ss[i], l) }

/// inside a pure function - at any depth, including nested closures, branches and loops - there is
/// no assignment, no mutable declaration and no read of a mutable variable; `pu` switches the flag
/// on, nothing switches it off
spec fn e_pur(vs: Seq<TypeVariable>, e: Expression, p: bool) -> bool decreases e {
    match e {
        Expression::Read { var, .. } => !(p && vs[var as int].kind is Mutable),
        Expression::Variant { value, .. } => e_pur(vs, *value, p),
        Expression::Call { function, args, .. } => e_pur(vs, *function, p) && forall|i: int| 0 <= i < args.len() ==> e_pur(vs, #[trigger] args[i], p),
        Expression::BlobAccess { value, .. } => e_pur(vs, *value, p),
        Expression::Index { value, index, .. } => e_pur(vs, *value, p) && e_pur(vs, *index, p),
        Expression::BinOp { a, b, .. } => e_pur(vs, *a, p) && e_pur(vs, *b, p),
        Expression::UniOp { a, .. } => e_pur(vs, *a, p),
        Expression::If { branches, .. } => forall|i: int| 0 <= i < branches.len() ==> ib_pur(vs, #[trigger] branches[i], p),
        Expression::Case { to_match, branches, fall_through, .. } => e_pur(vs, *to_match, p)
            && (forall|i: int| 0 <= i < branches.len() ==> cb_pur(vs, #[trigger] branches[i], p))
            && (match fall_through { Some(b) => forall|i: int| 0 <= i < b.len() ==> s_pur(vs, #[trigger] b[i], p), None => true }),
        Expression::Function { body, pure, .. } => forall|i: int| 0 <= i < body.len() ==> s_pur(vs, #[trigger] body[i], p || pure),
        Expression::Blob { fields, .. } => forall|i: int| 0 <= i < fields.len() ==> e_pur(vs, (#[trigger] fields[i]).1, p),
        Expression::Collection { values, .. } => forall|i: int| 0 <= i < values.len() ==> e_pur(vs, #[trigger] values[i], p),
        Expression::Float(..) | Expression::Int(..) | Expression::Str(..) | Expression::Bool(..) | Expression::Nil(..) => true,
    }
}
spec fn ib_pur(vs: Seq<TypeVariable>, b: IfBranch, p: bool) -> bool decreases b {
    (match b.condition { Some(c) => e_pur(vs, c, p), None => true }) && forall|i: int| 0 <= i < b.body.len() ==> s_pur(vs, #[trigger] b.body[i], p)
}
spec fn cb_pur(vs: Seq<TypeVariable>, b: CaseBranch, p: bool) -> bool decreases b {
    forall|i: int| 0 <= i < b.body.len() ==> s_pur(vs, #[trigger] b.body[i], p)
}
spec fn s_pur(vs: Seq<TypeVariable>, s: Statement, p: bool) -> bool decreases s {
    match s {
        Statement::Assignment { target, value, .. } => !p && e_pur(vs, target, p) && e_pur(vs, value, p),
        Statement::Blob { .. } | Statement::Enum { .. } | Statement::ExternalDefinition { .. } => true,
        Statement::Definition { kind, value, .. } => !(p && kind is Mutable) && e_pur(vs, value, p),
        Statement::Loop { condition, body, .. } => e_pur(vs, condition, p) && forall|i: int| 0 <= i < body.len() ==> s_pur(vs, #[trigger] body[i], p),
        Statement::Break(_) | Statement::Continue(_) | Statement::Unreachable(_) => true,
        Statement::Ret { value, .. } => match value { Some(v) => e_pur(vs, v, p), None => true },
        Statement::Block { statements, .. } => forall|i: int| 0 <= i < statements.len() ==> s_pur(vs, #[trigger] statements[i], p),
        Statement::StatementExpression { value, .. } => e_pur(vs, value, p),
    }
}
spec fn all_pur(vs: Seq<TypeVariable>, ss: Seq<Statement>, p: bool) -> bool { forall|i: int| 0 <= i < ss.len() ==> s_pur(vs, #[trigger] ss[i], p) }

/// the assignability table of C04: only mutable variables, field accesses and indexings
spec fn assignable_ok(vars: Seq<TypeVariable>, e: Expression) -> bool {
    match e {
        Expression::Read { var, .. } => vars[var as int].kind is Mutable,
        Expression::BlobAccess { .. } | Expression::Index { .. } => true,
        _ => false,
    }
}


// D-msg: the `Help` trait (typechecker.rs:23-57) only decorates an error with a message; its
// shadow keeps Ok/Err and the Ok value.
trait Help: Sized {
    spec fn h_is_ok(&self) -> bool;
    spec fn h_same(&self, other: &Self) -> bool;
    spec fn h_nonempty(&self) -> bool;
    // the real help()/help_no_span() panic ("Cannot help on this error since the error is empty") when the
    // error list is empty: that is the precondition here, so every call site proves a non-empty list
    fn help(self, typechecker: &TypeChecker, span: Span, message: String) -> (r: Self)
        requires self.h_is_ok() || self.h_nonempty(),
        ensures r.h_is_ok() == self.h_is_ok(), self.h_is_ok() ==> r.h_same(&self), !self.h_is_ok() ==> r.h_nonempty();
    fn help_no_span(self, message: String) -> (r: Self)
        requires self.h_is_ok() || self.h_nonempty(),
        ensures r.h_is_ok() == self.h_is_ok(), self.h_is_ok() ==> r.h_same(&self), !self.h_is_ok() ==> r.h_nonempty();
}
impl<T> Help for TypeResult<T> {
    spec fn h_is_ok(&self) -> bool { self is Ok }
    spec fn h_same(&self, other: &Self) -> bool { *self == *other }
    spec fn h_nonempty(&self) -> bool { self is Err && self->Err_0.len() >= 1 }
    #[verifier::external_body]
    fn help(self, typechecker: &TypeChecker, span: Span, message: String) -> (r: Self) { unimplemented!() }
    #[verifier::external_body]
    fn help_no_span(self, message: String) -> (r: Self) { unimplemented!() }
}
#[verifier::external_body]
fn opaque_string() -> String { unimplemented!() }
#[verifier::external_body]
fn opaque_usize() -> usize { unimplemented!() }
#[verifier::external_body]
fn opaque_strings() -> Vec<String> { unimplemented!() }
// std function without a vstd specification: Result::and keeps the first error, else the second result
pub assume_specification<T, E, U> [ Result::<T, E>::and::<U> ] (a: Result<T, E>, b: Result<U, E>) -> (r: Result<U, E>)
    ensures r == (match a { Ok(_) => b, Err(e) => Err::<U, E>(e) });
// (Result::or is not called on the unchanged tree; its specification lets a change that swaps `and` for `or` be decided)
pub assume_specification<T, E, F> [ Result::<T, E>::or::<F> ] (a: Result<T, E>, b: Result<T, F>) -> (r: Result<T, F>)
    ensures r == (match a { Ok(v) => Ok::<T, F>(v), Err(_) => b });
macro_rules! format { ($($t:tt)*) => { opaque_string() }; }
/// assumption A-derive-ord-tyid: derive(Ord) on TyID / tuples of TyID is a lawful total order
#[verifier::external_body]
proof fn axiom_tyid_pair_key_order() ensures vstd::std_specs::btree::key_obeys_cmp_spec::<(TyID, TyID)>() {}
#[verifier::external_body]
proof fn axiom_string_key_order() ensures vstd::std_specs::btree::key_obeys_cmp_spec::<String>() {}
/// assumption A-hash-string: Hash and Eq of String are a lawful hash-table key (what vstd's HashMap
/// specification asks of a key type; vstd provides this axiom for the primitive types only)
#[verifier::external_body]
proof fn axiom_string_hash_key() ensures vstd::std_specs::hash::obeys_key_model::<String>() {}
/// assumption A-hash-tyid: derive(Hash, Eq) on TyID is a lawful hash-table key
#[verifier::external_body]
proof fn axiom_tyid_hash_key() ensures vstd::std_specs::hash::obeys_key_model::<TyID>() {}
/// the nodes that existed keep their type, their constraints and their class (what a copy leaves alone)
spec fn prefix_same(a: Seq<TypeNode>, b: Seq<TypeNode>) -> bool {
    &&& a.len() <= b.len()
    &&& forall|i: int| 0 <= i < a.len() ==> (#[trigger] b[i]).ty == a[i].ty && b[i].constraints == a[i].constraints && rep0(b, i) == rep0(a, i)
}
spec fn prefix_from(a: Seq<TypeNode>, b: Seq<TypeNode>) -> bool {
    forall|o: Seq<TypeNode>| #[trigger] prefix_same(o, a) ==> prefix_same(o, b)
}
proof fn lemma_prefix_refl(a: Seq<TypeNode>) ensures prefix_same(a, a) {}
proof fn lemma_prefix_from(a: Seq<TypeNode>, b: Seq<TypeNode>)
    requires prefix_same(a, b),
    ensures prefix_from(a, b),
{
    assert forall|o: Seq<TypeNode>| #[trigger] prefix_same(o, a) implies prefix_same(o, b) by {
        assert forall|i: int| 0 <= i < o.len() implies (#[trigger] b[i]).ty == o[i].ty && b[i].constraints == o[i].constraints && rep0(b, i) == rep0(o, i) by {
            assert(a[i].ty == o[i].ty);
        }
    }
}
broadcast proof fn lemma_same_graph_prefix(a: Seq<TypeNode>, b: Seq<TypeNode>)
    requires #[trigger] same_graph(a, b),
    ensures prefix_from(a, b),
{
    assert(prefix_same(a, b)) by {
        assert forall|i: int| 0 <= i < a.len() implies (#[trigger] b[i]).ty == a[i].ty && b[i].constraints == a[i].constraints && rep0(b, i) == rep0(a, i) by { }
    }
    lemma_prefix_from(a, b);
}
proof fn lemma_push_prefix(ts0: Seq<TypeNode>, ts1: Seq<TypeNode>, ty: Type)
    requires push_frame(ts0, ts1, ty),
    ensures prefix_from(ts0, ts1),
{
    reveal(push_frame);
    assert(prefix_same(ts0, ts1));
    lemma_prefix_from(ts0, ts1);
}
/// the table of copies only grows
spec fn seen_ext(a: Map<TyID, TyID>, b: Map<TyID, TyID>) -> bool {
    forall|k: TyID| #[trigger] a.contains_key(k) ==> b.contains_key(k) && b[k] == a[k]
}
spec fn seen_from(a: Map<TyID, TyID>, b: Map<TyID, TyID>) -> bool {
    forall|o: Map<TyID, TyID>| #[trigger] seen_ext(o, a) ==> seen_ext(o, b)
}
proof fn lemma_seen_from(a: Map<TyID, TyID>, b: Map<TyID, TyID>)
    requires seen_ext(a, b),
    ensures seen_from(a, b),
{
    assert forall|o: Map<TyID, TyID>| #[trigger] seen_ext(o, a) implies seen_ext(o, b) by {
        assert forall|k: TyID| #[trigger] o.contains_key(k) implies b.contains_key(k) && b[k] == o[k] by { assert(a.contains_key(k)); }
    }
}
/// y is the copy of (the class of) x
spec fn copied_id(ts: Seq<TypeNode>, m: Map<TyID, TyID>, x: TyID, y: TyID) -> bool {
    m.contains_key(TyID(rep0(ts, x.0 as int) as usize)) && m[TyID(rep0(ts, x.0 as int) as usize)] == y
}
spec fn con_kind(c: Constraint) -> int {
    match c {
        Constraint::Add(_) => 0, Constraint::Sub(_) => 1, Constraint::Mul(_) => 2, Constraint::DivTop(_) => 3, Constraint::DivBot(_) => 4,
        Constraint::DivRes(_) => 5, Constraint::Equ(_) => 6, Constraint::Cmp(_) => 7, Constraint::CmpEqu(_) => 8, Constraint::Neg => 9,
        Constraint::ConstantIndex(..) => 10, Constraint::Field(..) => 11, Constraint::Num => 12, Constraint::Enum => 13,
        Constraint::Variant(..) => 14, Constraint::TotalEnum(_) => 15, Constraint::Variable => 16,
    }
}
/// the type id a constraint mentions, if any
spec fn con_id(c: Constraint) -> Option<TyID> {
    match c {
        Constraint::Add(x) => Some(x), Constraint::Sub(x) => Some(x), Constraint::Mul(x) => Some(x), Constraint::DivTop(x) => Some(x),
        Constraint::DivBot(x) => Some(x), Constraint::DivRes(x) => Some(x), Constraint::Equ(x) => Some(x), Constraint::Cmp(x) => Some(x),
        Constraint::CmpEqu(x) => Some(x), Constraint::ConstantIndex(_, x) => Some(x), Constraint::Field(_, x) => Some(x),
        Constraint::Variant(_, x) => x, _ => None,
    }
}
/// what a constraint says besides its kind and its type id
spec fn con_rest_eq(c: Constraint, d: Constraint) -> bool {
    match (c, d) {
        (Constraint::ConstantIndex(i, _), Constraint::ConstantIndex(j, _)) => i == j,
        (Constraint::Field(n, _), Constraint::Field(m, _)) => n == m,
        (Constraint::Variant(v, _), Constraint::Variant(w, _)) => v == w,
        (Constraint::TotalEnum(a), Constraint::TotalEnum(b)) => a@ == b@,
        _ => true,
    }
}
/// d is the copy of constraint c: the same kind of constraint, about the copy of the type c is about
#[verifier::opaque]
spec fn con_copy(ts: Seq<TypeNode>, m: Map<TyID, TyID>, c: Constraint, d: Constraint) -> bool {
    &&& con_kind(c) == con_kind(d)
    &&& con_rest_eq(c, d)
    &&& (con_id(c) is Some <==> con_id(d) is Some)
    &&& (con_id(c) is Some ==> copied_id(ts, m, con_id(c)->Some_0, con_id(d)->Some_0))
}
proof fn lemma_con_copy_intro(ts: Seq<TypeNode>, m: Map<TyID, TyID>, c: Constraint, d: Constraint)
    requires con_kind(c) == con_kind(d), con_rest_eq(c, d), con_id(c) is Some <==> con_id(d) is Some,
        con_id(c) is Some ==> copied_id(ts, m, con_id(c)->Some_0, con_id(d)->Some_0),
    ensures con_copy(ts, m, c, d),
{ reveal(con_copy); }
proof fn lemma_con_copy_mono(ts: Seq<TypeNode>, m: Map<TyID, TyID>, m2: Map<TyID, TyID>, c: Constraint, d: Constraint)
    requires con_copy(ts, m, c, d), seen_ext(m, m2),
    ensures con_copy(ts, m2, c, d),
{ reveal(con_copy); }
/// the generics resolved so far are nodes of the graph
/// the table of type variables only grows: a name keeps the node it was given
spec fn sn_ext(a: Map<String, TyID>, b: Map<String, TyID>) -> bool { forall|k: String| #[trigger] a.contains_key(k) ==> b.contains_key(k) && b[k] == a[k] }
/// the parameters resolved so far that are written as a bare type variable `*A` are in the class of the node recorded for A
spec fn generic_params_joined(ts: Seq<TypeNode>, vs: Seq<TypeVariable>, ps: Seq<(String, usize, Span, ResolverType)>, upto: int, seen: Map<String, TyID>) -> bool {
    forall|k: int| 0 <= k < upto && k < ps.len() && (#[trigger] ps[k]).3 is Generic
        ==> seen.contains_key(ps[k].3->Generic_0) && rep0(ts, seen[ps[k].3->Generic_0].0 as int) == rep0(ts, vs[ps[k].1 as int].ty.0 as int)
}
proof fn lemma_generic_params_mono(ts_a: Seq<TypeNode>, ts_b: Seq<TypeNode>, vs: Seq<TypeVariable>, ps: Seq<(String, usize, Span, ResolverType)>, upto: int,
                                   sa: Map<String, TyID>, sb: Map<String, TyID>)
    requires merges_only(ts_a, ts_b), generic_params_joined(ts_a, vs, ps, upto, sa), sn_ext(sa, sb), sn_ok(sa, ts_a.len() as int),
        forall|k: int| 0 <= k < ps.len() ==> (#[trigger] ps[k]).1 < vs.len() && (vs[ps[k].1 as int].ty.0 as int) < ts_a.len(),
    ensures generic_params_joined(ts_b, vs, ps, upto, sb),
{
    assert forall|k: int| 0 <= k < upto && k < ps.len() && (#[trigger] ps[k]).3 is Generic
        implies sb.contains_key(ps[k].3->Generic_0) && rep0(ts_b, sb[ps[k].3->Generic_0].0 as int) == rep0(ts_b, vs[ps[k].1 as int].ty.0 as int) by {
        let nm = ps[k].3->Generic_0;
        assert(sa.contains_key(nm));
        assert(rep0(ts_a, sa[nm].0 as int) == rep0(ts_a, vs[ps[k].1 as int].ty.0 as int));
    }
}
spec fn sn_ok(m: Map<String, TyID>, n: int) -> bool { forall|k: String| #[trigger] m.contains_key(k) ==> (m[k].0 as int) < n }
/// the constructor (see `head`) of a primitive type annotation
spec fn prim_head(t: ResolverType) -> Option<int> {
    match t {
        ResolverType::Resolved(r, _) => match r {
            RuntimeType::Unknown => Some(0int), RuntimeType::Void => Some(3int), RuntimeType::Nil => Some(4int), RuntimeType::Int => Some(5int),
            RuntimeType::Float => Some(6int), RuntimeType::Bool => Some(7int), RuntimeType::String => Some(8int), _ => None,
        },
        _ => None,
    }
}
/// a definition whose type annotation is a primitive type and whose value is a literal of another kind
spec fn decl_lit_clash(st: Statement) -> bool {
    match st {
        Statement::Definition { ty, value, .. } => prim_head(ty) is Some && prim_head(ty)->Some_0 != 0
            && lit_head(value) is Some && lit_head(value)->Some_0 != prim_head(ty)->Some_0,
        _ => false,
    }
}
/// how many of the first n ids are not in s: the termination measure of inner_bake_type
spec fn unseen(n: nat, s: Set<TyID>) -> nat decreases n {
    if n == 0 { 0 } else { unseen((n - 1) as nat, s) + (if s.contains(TyID((n - 1) as usize)) { 0nat } else { 1nat }) }
}
broadcast proof fn lemma_unseen_mono(n: nat, s: Set<TyID>, t: Set<TyID>)
    requires forall|k: TyID| s.contains(k) ==> t.contains(k),
    ensures #![trigger unseen(n, s), unseen(n, t)] unseen(n, t) <= unseen(n, s),
    decreases n
{ if n > 0 { lemma_unseen_mono((n - 1) as nat, s, t); } }
proof fn lemma_unseen_strict(n: nat, s: Set<TyID>, t: Set<TyID>, a: TyID)
    requires forall|k: TyID| s.contains(k) ==> t.contains(k), (a.0 as int) < n, n <= usize::MAX, !s.contains(a), t.contains(a),
    ensures unseen(n, t) < unseen(n, s),
    decreases n
{
    if n > 0 {
        if a.0 == (n - 1) as usize { lemma_unseen_mono((n - 1) as nat, s, t); assert(TyID((n - 1) as usize) == a); }
        else { lemma_unseen_strict((n - 1) as nat, s, t, a); }
    }
}
/// every key is (the id of) a node
spec fn keys_below(ks: Set<TyID>, n: int) -> bool { forall|k: TyID| #[trigger] ks.contains(k) ==> (k.0 as int) < n }
/// the copies made so far are nodes of the graph
spec fn seen_ok(m: Map<TyID, TyID>, n: int) -> bool { forall|k: TyID| #[trigger] m.contains_key(k) ==> (m[k].0 as int) < n }

/// two known types that can never be unified: different head constructors, tuples of different
/// length, functions of different arity or with clashing purity, different extern blobs
spec fn head_clash(ta: Type, tb: Type) -> bool {
    !(ta is Unknown) && !(tb is Unknown) && match (ta, tb) {
        (Type::Ty, Type::Ty) | (Type::Void, Type::Void) | (Type::Nil, Type::Nil) | (Type::Int, Type::Int)
        | (Type::Float, Type::Float) | (Type::Bool, Type::Bool) | (Type::Str, Type::Str) => false,
        (Type::List(_), Type::List(_)) => false,
        (Type::Tuple(x), Type::Tuple(y)) => x.len() != y.len(),
        (Type::Function(xa, _, pa), Type::Function(xb, _, pb)) =>
            xa.len() != xb.len() || (pa is Pure && pb is Impure) || (pa is Impure && pb is Pure),
        (Type::Blob(..), Type::Blob(..)) => false,
        (Type::ExternBlob(_, _, _, _, ia), Type::ExternBlob(_, _, _, _, ib)) => ia != ib,
        (Type::Enum(..), Type::Enum(..)) => false,
        _ => true,
    }
}

/// the class sizes of two different roots fit into a usize together (they are bounded by the number
/// of nodes, which is the length of a Vec)
proof fn lemma_sizes_fit(ts: Seq<TypeNode>, i: int, j: int)
    requires wf_forest(ts), sizes_inv(ts), ts.len() <= usize::MAX, 0 <= i < ts.len(), 0 <= j < ts.len(), rep0(ts, i) != rep0(ts, j),
    ensures ts[rep0(ts, i)].size + ts[rep0(ts, j)].size <= usize::MAX
{
    lemma_rep0_props(ts, i); lemma_rep0_props(ts, j);
    lemma_two_roots_le_sum(ts, ts.len() as int, rep0(ts, i), rep0(ts, j));
}
/// the roots of two graphs with the same partition are the same nodes
proof fn lemma_same_roots(a: Seq<TypeNode>, b: Seq<TypeNode>)
    requires wf_forest(a), wf_forest(b), same_graph(a, b),
    ensures forall|i: int| 0 <= i < a.len() ==> ((#[trigger] b[i]).parent is None) == (a[i].parent is None),
        sizes_inv(a) ==> sizes_inv(b),
{
    assert forall|i: int| 0 <= i < a.len() implies ((#[trigger] b[i]).parent is None) == (a[i].parent is None) by {
        lemma_rep0_props(a, i); lemma_rep0_props(b, i);
        assert(rep0(b, i) == rep0(a, i));
    }
    lemma_sum_same(a, b, a.len() as int);
}

// std function without a vstd specification: Option::or returns the first Some (assumed specification)
pub assume_specification<T> [ Option::<T>::or ] (a: Option<T>, b: Option<T>) -> (r: Option<T>) ensures r == (if a is Some { a } else { b });
macro_rules! type_error {
    ($self:expr, $span:expr, $($rest:tt)*) => { opaque_error($span) };
}
#[verifier::external_body]
fn opaque_error(span: Span) -> (r: Error) ensures r.span() == span { unimplemented!() }
//@ macro sylt-compiler/src/typechecker.rs bin_op
//@ fn sylt-compiler/src/typechecker.rs no_ret
//@   props C07
//@   ret r
//@   spec
    ensures r == Ok::<RetNValue, Vec<Error>>((None, value)), //# C07 no_ret.spec.aux1
            r is Err ==> r->Err_0.len() >= 1, //# C07 no_ret.an_error_result_is_never_an_empty_list
//@   endspec
//@ end
//@ fn sylt-compiler/src/typechecker.rs with_ret
//@   props C07
//@   ret r
//@   spec
    ensures r == Ok::<RetNValue, Vec<Error>>((ret, value)), //# C07 with_ret.spec.aux1
            r is Err ==> r->Err_0.len() >= 1, //# C07 with_ret.an_error_result_is_never_an_empty_list
//@   endspec
//@ end

proof fn lemma_var_valid(tc: &TypeChecker, i: int)
    requires tc.vars_valid(), 0 <= i < tc.variables@.len(),
    ensures tc.valid(tc.variables@[i].ty),
{
}

impl TypeCtx {
//@ fn sylt-compiler/src/typechecker.rs new
//@   in TypeCtx
//@   props C04 C05
//@   ret r
//@   spec
        ensures !r.inside_loop && !r.inside_pure, //# C04,C05 typectx.new_is_outside_everything
//@   endspec
//@ end
//@ fn sylt-compiler/src/typechecker.rs enter_loop
//@   in TypeCtx
//@   props C04 C05
//@   ret r
//@   spec
        ensures r.inside_loop, r.inside_pure == self.inside_pure, //# C04,C05 typectx.enter_loop_keeps_purity
//@   endspec
//@ end
//@ fn sylt-compiler/src/typechecker.rs enter_pure
//@   in TypeCtx
//@   props C04 C05
//@   ret r
//@   spec
        ensures r.inside_pure, r.inside_loop == self.inside_loop, //# C04,C05 typectx.enter_pure_keeps_loop
//@   endspec
//@ end
//@ fn sylt-compiler/src/typechecker.rs enter_function
//@   in TypeCtx
//@   props C04 C05
//@   ret r
//@   spec
        ensures !r.inside_loop, r.inside_pure == self.inside_pure, //# C04,C05 typectx.enter_function_leaves_loops_keeps_purity
//@   endspec
//@ end
}
impl TypeChecker {
    /// representation invariant of the type graph
    spec fn inv(&self) -> bool {
        wf_forest(self.types@) && ids_closed(self.types@) && sizes_inv(self.types@)
    }
    spec fn valid(&self, a: TyID) -> bool { (a.0 as int) < self.types@.len() }
    /// every variable's type id is a node of the graph
    spec fn vars_valid(&self) -> bool {
        forall|i: int| 0 <= i < self.variables@.len() ==> ((#[trigger] self.variables@[i].ty).0 as int) < self.types@.len()
    }
    spec fn inv2(&self) -> bool { self.inv() && self.vars_valid() }
    /// what every loop of inner_bake_type keeps: invariant, frame, the graph does not grow, the classes
    /// already marked (s1) stay marked, every marked key is a node
    spec fn bake_inv(&self, old: &TypeChecker, seen: Set<TyID>, s1: Set<TyID>, n: nat) -> bool {
        self.inv2() && self.grows(old) && self.types@.len() == n && n == old.types@.len() && keys_below(seen, n as int)
            && (forall|k: TyID| s1.contains(k) ==> seen.contains(k)) && vstd::std_specs::hash::obeys_key_model::<TyID>()
    }
    /// what every loop of inner_copy keeps: the invariant, the frame, the copies made so far are nodes,
    /// the nodes that existed at entry (ts0) and at the last snapshot (sq) are untouched
    spec fn copy_inv(&self, old: &TypeChecker, seen: Map<TyID, TyID>, ts0: Seq<TypeNode>, sq: Seq<TypeNode>, new_ty: TyID, old_ty: TyID) -> bool {
        self.inv2() && self.grows(old) && seen_ok(seen, self.types@.len() as int) && prefix_same(ts0, self.types@) && prefix_same(sq, self.types@)
            && self.valid(new_ty) && self.valid(old_ty) && vstd::std_specs::hash::obeys_key_model::<TyID>()
    }
    /// the frame every checker function obeys: the graph only grows, the variable table is fixed
    spec fn grows(&self, old: &TypeChecker) -> bool {
        self.types@.len() >= old.types@.len() && self.variables == old.variables && merges_from(old.types@, self.types@) && cons_from(old.types@, self.types@)
            && heads_from(old.types@, self.types@) && heads_kept(self.types@, self.types@)
    }

//@ fn sylt-compiler/src/typechecker.rs push_type
//@   in TypeChecker
//@   props C02 C07
//@   ret r
//@   spec
        requires
            old(self).inv(), //# C02 push_type.pre.inv
            ids_in_range(ty, old(self).types@.len() as int + 1), //# C02,C07 push_type.spec.aux1
        ensures
            final(self).inv(), //# C02 push_type.keeps_invariant
            old(self).vars_valid() ==> final(self).inv2(), //# C02,C07 push_type.spec.aux2
            r.0 == old(self).types@.len(), //# C02 push_type.returns_fresh_id
            final(self).types@.len() == old(self).types@.len() + 1, //# C02,C07 push_type.spec.aux3
            push_frame(old(self).types@, final(self).types@, ty), //# C02 push_type.appends_one_singleton_class_and_touches_nothing_else
            ty_of(final(self).types@, r) == ty, //# C02,C03 push_type.the_new_id_has_the_given_type
            heads_kept(final(self).types@, final(self).types@), //# - push_type.spec.seed_term_of_the_known_types_chain
            merges_from(old(self).types@, final(self).types@), //# C02 push_type.classes_only_merge
            cons_from(old(self).types@, final(self).types@), //# C02 push_type.no_constraint_dropped
            heads_from(old(self).types@, final(self).types@), //# C02,C03 push_type.known_types_keep_their_shape
            final(self).variables == old(self).variables, //# C07 push_type.spec.aux4
//@   endspec
//@   ghost after
//@|         });
            proof { lemma_push(old(self).types@, self.types@); reveal(push_frame); lemma_push_merges(old(self).types@, self.types@); lemma_push_cons(old(self).types@, self.types@); lemma_push_heads(old(self).types@, self.types@); }
//@   endghost
//@ end

//@ fn sylt-compiler/src/typechecker.rs find
//@   in TypeChecker
//@   props C02 C07
//@   ret res
//@   rewrite rule:R-param
//@- fn find(&mut self, TyID(a): TyID) -> TyID {
//@+ fn find(&mut self, a_: TyID) -> TyID { let TyID(a) = a_;
//@   why Verus does not accept a pattern in parameter position; the let is the same destructuring
//@   endrewrite
//@   spec
        requires
            wf_forest(old(self).types@), //# C02 find.pre.forest
            (a_.0 as int) < old(self).types.len(), //# C07 find.pre.id_in_range
        ensures
            final(self).types.len() == old(self).types.len(), //# C07 find.spec.aux1
            wf_forest(final(self).types@), //# C02,C07 find.spec.aux2
            old(self).inv() ==> final(self).inv(), //# C02 find.keeps_invariant
            old(self).inv2() ==> final(self).inv2(), //# C02,C07 find.spec.aux3
            same_graph(old(self).types@, final(self).types@), //# C02 find.no_observable_change
            forall|o: Seq<TypeNode>| #[trigger] same_graph(o, old(self).types@) ==> same_graph(o, final(self).types@), //# C02,C07 find.spec.aux4
            tview(final(self).types@) == tview(old(self).types@), //# C02 find.view_unchanged
            merges_from(old(self).types@, final(self).types@), //# C02 find.classes_only_merge
            cons_from(old(self).types@, final(self).types@), //# C02 find.no_constraint_dropped
            heads_from(old(self).types@, final(self).types@), //# C02,C03 find.known_types_keep_their_shape
            final(self).variables == old(self).variables, //# C02 find.frame_variables
            (res.0 as int) < final(self).types.len(), //# C07 find.result_in_range
            final(self).types@[res.0 as int].parent is None, //# C02 find.result_is_root
            res.0 as int == rep0(old(self).types@, a_.0 as int), //# C02 find.returns_representative
//@   endspec
//@   ghost before-loop 1
        let ghost ts0 = self.types@;
        let ghost h = the_h(ts0);
//@   endghost
//@   loop 1
            invariant
                self.types@ == ts0, hok(ts0, h), (root as int) < ts0.len(), (a as int) < ts0.len(), //# C02,C07 find.loop1.aux1
                rep(ts0, h, root as int) == rep(ts0, h, a as int), //# C02,C07 find.loop1.aux2
                self.variables == old(self).variables, //# C07 find.loop1.aux3
            ensures ts0[root as int].parent is None, //# C07 find.loop1.aux4
            decreases h[root as int]
//@   endloop
//@   ghost before-loop 2
        proof { lemma_rep_props(ts0, h, root as int); lemma_rep_props(ts0, h, a as int); }
        assert(root as int == rep(ts0, h, a as int));
//@   endghost
//@   loop 2
            invariant
                self.types.len() == ts0.len(), hok(ts0, h), hok(self.types@, h), //# C02,C07 find.loop2.aux1
                (node as int) < ts0.len(), (root as int) < ts0.len(), //# C07 find.loop2.aux2
                rep(ts0, h, node as int) == root as int, //# C02,C07 find.loop2.aux3
                ts0[root as int].parent is None, self.types@[root as int].parent is None, //# C02,C07 find.loop2.aux4
                forall|i: int| 0 <= i < ts0.len() ==> rep(self.types@, h, i) == rep(ts0, h, i), //# C02,C07 find.loop2.aux5
                forall|i: int| 0 <= i < ts0.len() ==>
                    (#[trigger] self.types@[i]).ty == ts0[i].ty && self.types@[i].size == ts0[i].size
                    && self.types@[i].constraints == ts0[i].constraints, //# C02,C07 find.loop2.aux6
                self.variables == old(self).variables, //# C07 find.loop2.aux7
            decreases h[node as int]
//@   endloop
//@   ghost loop-body 2
            let ghost before = self.types@;
            proof { lemma_rep_props(before, h, node as int); }
//@   endghost
//@   ghost after
//@|             self.types[node].parent = Some(TyID(root));
            proof {
                let after = self.types@;
                assert forall|i: int| 0 <= i < ts0.len() implies rep(after, h, i) == rep(ts0, h, i) by {
                    lemma_compress(before, after, h, node as int, root, i);
                }
            }
//@   endghost
//@   ghost after-loop 2
        proof {
            let tsf = self.types@;
            assert(wf_forest(tsf));
            assert forall|i: int| 0 <= i < ts0.len() implies rep0(tsf, i) == rep0(ts0, i) by {
                lemma_rep_indep(tsf, the_h(tsf), h, i);
            }
            lemma_unchanged(ts0, tsf);
        }
//@   endghost
//@ end

//@ fn sylt-compiler/src/typechecker.rs find_node
//@   in TypeChecker
//@   props C02 C07
//@   ret r
//@   spec
        requires
            wf_forest(old(self).types@), //# C02,C07 find_node.spec.aux1
            (a.0 as int) < old(self).types.len(), //# C07 find_node.pre.id_in_range
        ensures
            final(self).types.len() == old(self).types.len(), //# C07 find_node.spec.aux2
            wf_forest(final(self).types@), //# C02,C07 find_node.spec.aux3
            old(self).inv() ==> final(self).inv(), //# C02 find_node.keeps_invariant
            old(self).inv2() ==> final(self).inv2(), //# C02,C07 find_node.spec.aux4
            same_graph(old(self).types@, final(self).types@), //# C02 find_node.no_observable_change
            forall|o: Seq<TypeNode>| #[trigger] same_graph(o, old(self).types@) ==> same_graph(o, final(self).types@), //# C02,C07 find_node.spec.aux5
            tview(final(self).types@) == tview(old(self).types@), //# C02 find_node.view_unchanged
            merges_from(old(self).types@, final(self).types@), //# C02 find_node.classes_only_merge
            cons_from(old(self).types@, final(self).types@), //# C02 find_node.no_constraint_dropped
            heads_from(old(self).types@, final(self).types@), //# C02,C03 find_node.known_types_keep_their_shape
            final(self).variables == old(self).variables, //# C02 find_node.frame_variables
            *r == final(self).types@[rep0(old(self).types@, a.0 as int)], //# C02 find_node.returns_root_node
            r.ty == ty_of(old(self).types@, a), //# C02,C07 find_node.spec.aux6
//@   endspec
//@   ghost entry
        proof { lemma_rep0_props(self.types@, a.0 as int); }
//@   endghost
//@ end

//@ fn sylt-compiler/src/typechecker.rs find_type
//@   in TypeChecker
//@   props C02 C07
//@   ret r
//@   spec
        requires
            wf_forest(old(self).types@), //# C02,C07 find_type.spec.aux1
            (a.0 as int) < old(self).types.len(), //# C07 find_type.pre.id_in_range
        ensures
            final(self).types.len() == old(self).types.len(), //# C07 find_type.spec.aux2
            wf_forest(final(self).types@), //# C02,C07 find_type.spec.aux3
            old(self).inv() ==> final(self).inv(), //# C02 find_type.keeps_invariant
            old(self).inv2() ==> final(self).inv2(), //# C02,C07 find_type.spec.aux4
            same_graph(old(self).types@, final(self).types@), //# C02 find_type.no_observable_change
            forall|o: Seq<TypeNode>| #[trigger] same_graph(o, old(self).types@) ==> same_graph(o, final(self).types@), //# C02,C07 find_type.spec.aux5
            tview(final(self).types@) == tview(old(self).types@), //# C02 find_type.view_unchanged
            merges_from(old(self).types@, final(self).types@), //# C02 find_type.classes_only_merge
            cons_from(old(self).types@, final(self).types@), //# C02 find_type.no_constraint_dropped
            heads_from(old(self).types@, final(self).types@), //# C02,C03 find_type.known_types_keep_their_shape
            final(self).variables == old(self).variables, //# C02 find_type.frame_variables
            r == ty_of(old(self).types@, a), //# C02 find_type.returns_class_type
            r == tview(old(self).types@)[a.0 as int], //# C02,C07 find_type.spec.aux6
            old(self).inv() ==> ids_in_range(r, old(self).types@.len() as int), //# C07 find_type.result_ids_in_range
//@   endspec
//@   ghost entry
        proof { lemma_rep0_props(self.types@, a.0 as int); if self.inv() { lemma_view_members(self.types@, a); } }
//@   endghost
//@ end

//@ fn sylt-compiler/src/typechecker.rs is_void
//@   in TypeChecker
//@   props C02 C07
//@   ret r
//@   spec
        requires
            wf_forest(old(self).types@), //# C02,C07 is_void.spec.aux1
            (a.0 as int) < old(self).types.len(), //# C07 is_void.spec.aux2
        ensures
            final(self).types.len() == old(self).types.len(), //# C07 is_void.spec.aux3
            wf_forest(final(self).types@), //# C02,C07 is_void.spec.aux4
            old(self).inv() ==> final(self).inv(), //# C02 is_void.keeps_invariant
            old(self).inv2() ==> final(self).inv2(), //# C02,C07 is_void.spec.aux5
            same_graph(old(self).types@, final(self).types@), //# C02 is_void.no_observable_change
            forall|o: Seq<TypeNode>| #[trigger] same_graph(o, old(self).types@) ==> same_graph(o, final(self).types@), //# C02,C07 is_void.spec.aux6
            tview(final(self).types@) == tview(old(self).types@), //# C02 is_void.view_unchanged
            merges_from(old(self).types@, final(self).types@), //# C02 is_void.classes_only_merge
            cons_from(old(self).types@, final(self).types@), //# C02 is_void.no_constraint_dropped
            heads_from(old(self).types@, final(self).types@), //# C02,C03 is_void.known_types_keep_their_shape
            final(self).variables == old(self).variables, //# C02 is_void.frame_variables
            r == (ty_of(old(self).types@, a) is Void), //# C03 is_void.exact
//@   endspec
//@   ghost entry
        proof { lemma_rep0_props(self.types@, a.0 as int); }
//@   endghost
//@ end

//@ fn sylt-compiler/src/typechecker.rs add
//@   in TypeChecker
//@   props C03 C07
//@   attr #[verifier::exec_allows_no_decreases_clause]
//@   attr #[verifier::loop_isolation(false)]
//@   ret r
//@   rewrite guard
//@- (Type::Tuple(a), Type::Tuple(b)) if a.len() == b.len() => {
//@   endrewrite
//@   spec
        requires
            old(self).inv(), //# C03 add.pre.inv
            old(self).valid(a), old(self).valid(b), //# C07 add.pre.ids_in_range
        ensures
            final(self).inv(), //# C02 add.keeps_invariant
            same_graph(old(self).types@, final(self).types@), //# C03 add.no_observable_change
            forall|o: Seq<TypeNode>| #[trigger] same_graph(o, old(self).types@) ==> same_graph(o, final(self).types@), //# C07 add.spec.aux1
            tview(final(self).types@) == tview(old(self).types@), //# C03 add.view_unchanged
            final(self).variables == old(self).variables, //# C07 add.spec.aux2
            r is Ok <==> add_ok_all(tview(old(self).types@), a, b), //# C02,C03 add.ok_iff_table
            r is Err ==> r->Err_0.len() >= 1 && r->Err_0[0].span() == span, //# C03 add.error_carries_span
//@   endspec
//@   ghost entry
        let ghost ts0 = self.types@; let ghost m = tview(ts0); let ghost a_id = a; let ghost b_id = b;
        proof {
            lemma_same_graph_refl(ts0);
            lemma_view_members(ts0, a_id); lemma_view_members(ts0, b_id);
            assert(add_ok_all(m, a_id, b_id) ==> add_ok(m, a_id, b_id, 1));
        }
//@   endghost
//@   ghost before-loop 1
                let ghost xs = a@; let ghost ys = b@;
//@   endghost
//@   loop 1 binder it
                    invariant
                        self.inv(), same_graph(ts0, self.types@), self.variables == old(self).variables, //# C07 add.loop1.aux1
                        forall|o: Seq<TypeNode>| #[trigger] same_graph(o, ts0) ==> same_graph(o, self.types@), //# C07 add.loop1.aux2
                        tview(self.types@) == m, ts0 == old(self).types@, xs.len() == ys.len(), //# C07 add.loop1.aux3
                        it.seq().len() == xs.len(), //# - add.loop1.aux4
                        forall|i: int| 0 <= i < xs.len() ==> *(#[trigger] it.seq()[i]).0 == xs[i] && *it.seq()[i].1 == ys[i], //# - add.loop1.aux5
                        m[a_id.0 as int] is Tuple, m[b_id.0 as int] is Tuple, //# C07 add.loop1.aux6
                        xs == m[a_id.0 as int]->Tuple_0@, ys == m[b_id.0 as int]->Tuple_0@, //# C07 add.loop1.aux7
                        forall|k: int| 0 <= k < xs.len() ==> (#[trigger] xs[k]).0 < ts0.len() && (#[trigger] ys[k]).0 < ts0.len(), //# C07 add.loop1.aux8
                        forall|i: int| 0 <= i < it.index@ ==> #[trigger] add_ok_all(m, xs[i], ys[i]), //# C03 add.loop.members_checked
//@   endloop
//@   ghost loop-body 1
                    let ghost ts_before = self.types@;
                    proof { lemma_add_elem(m, a_id, b_id, it.index@); }
//@   endghost
//@   ghost after-loop 1
                proof { lemma_add_intro(m, a_id, b_id); }
//@   endghost
//@ end

//@ fn sylt-compiler/src/typechecker.rs sub
//@   in TypeChecker
//@   props C03 C07
//@   attr #[verifier::exec_allows_no_decreases_clause]
//@   attr #[verifier::loop_isolation(false)]
//@   ret r
//@   rewrite guard
//@- (Type::Tuple(a), Type::Tuple(b)) if a.len() == b.len() => {
//@   endrewrite
//@   spec
        requires
            old(self).inv(), //# C03 sub.pre.inv
            old(self).valid(a), old(self).valid(b), //# C07 sub.pre.ids_in_range
        ensures
            final(self).inv(), //# C02 sub.keeps_invariant
            same_graph(old(self).types@, final(self).types@), //# C03 sub.no_observable_change
            forall|o: Seq<TypeNode>| #[trigger] same_graph(o, old(self).types@) ==> same_graph(o, final(self).types@), //# C07 sub.spec.aux1
            tview(final(self).types@) == tview(old(self).types@), //# C03 sub.view_unchanged
            final(self).variables == old(self).variables, //# C07 sub.spec.aux2
            r is Ok <==> arith_ok_all(tview(old(self).types@), a, b), //# C02,C03 sub.ok_iff_table
            r is Err ==> r->Err_0.len() >= 1 && r->Err_0[0].span() == span, //# C03 sub.error_carries_span
//@   endspec
//@   ghost entry
        let ghost ts0 = self.types@; let ghost m = tview(ts0); let ghost a_id = a; let ghost b_id = b;
        proof {
            lemma_same_graph_refl(ts0);
            lemma_view_members(ts0, a_id); lemma_view_members(ts0, b_id);
            assert(arith_ok_all(m, a_id, b_id) ==> arith_ok(m, a_id, b_id, 1));
        }
//@   endghost
//@   ghost before-loop 1
                let ghost xs = a@; let ghost ys = b@;
//@   endghost
//@   loop 1 binder it
                    invariant
                        self.inv(), same_graph(ts0, self.types@), self.variables == old(self).variables, //# C07 sub.loop1.aux1
                        forall|o: Seq<TypeNode>| #[trigger] same_graph(o, ts0) ==> same_graph(o, self.types@), //# C07 sub.loop1.aux2
                        tview(self.types@) == m, ts0 == old(self).types@, xs.len() == ys.len(), //# C07 sub.loop1.aux3
                        it.seq().len() == xs.len(), //# - sub.loop1.aux4
                        forall|i: int| 0 <= i < xs.len() ==> *(#[trigger] it.seq()[i]).0 == xs[i] && *it.seq()[i].1 == ys[i], //# - sub.loop1.aux5
                        m[a_id.0 as int] is Tuple, m[b_id.0 as int] is Tuple, //# C07 sub.loop1.aux6
                        xs == m[a_id.0 as int]->Tuple_0@, ys == m[b_id.0 as int]->Tuple_0@, //# C07 sub.loop1.aux7
                        forall|k: int| 0 <= k < xs.len() ==> (#[trigger] xs[k]).0 < ts0.len() && (#[trigger] ys[k]).0 < ts0.len(), //# C07 sub.loop1.aux8
                        forall|i: int| 0 <= i < it.index@ ==> #[trigger] arith_ok_all(m, xs[i], ys[i]), //# C03 sub.loop1.members_checked
//@   endloop
//@   ghost loop-body 1
                    proof { lemma_arith_elem(m, a_id, b_id, it.index@); }
//@   endghost
//@   ghost after-loop 1
                proof { lemma_arith_intro(m, a_id, b_id); }
//@   endghost
//@ end

//@ fn sylt-compiler/src/typechecker.rs mul
//@   in TypeChecker
//@   props C03 C07
//@   attr #[verifier::exec_allows_no_decreases_clause]
//@   attr #[verifier::loop_isolation(false)]
//@   ret r
//@   rewrite guard
//@- (Type::Tuple(a), Type::Tuple(b)) if a.len() == b.len() => {
//@   endrewrite
//@   spec
        requires
            old(self).inv(), //# C03 mul.pre.inv
            old(self).valid(a), old(self).valid(b), //# C07 mul.pre.ids_in_range
        ensures
            final(self).inv(), //# C02 mul.keeps_invariant
            same_graph(old(self).types@, final(self).types@), //# C03 mul.no_observable_change
            forall|o: Seq<TypeNode>| #[trigger] same_graph(o, old(self).types@) ==> same_graph(o, final(self).types@), //# C07 mul.spec.aux1
            tview(final(self).types@) == tview(old(self).types@), //# C03 mul.view_unchanged
            final(self).variables == old(self).variables, //# C07 mul.spec.aux2
            r is Ok <==> arith_ok_all(tview(old(self).types@), a, b), //# C02,C03 mul.ok_iff_table
            r is Err ==> r->Err_0.len() >= 1 && r->Err_0[0].span() == span, //# C03 mul.error_carries_span
//@   endspec
//@   ghost entry
        let ghost ts0 = self.types@; let ghost m = tview(ts0); let ghost a_id = a; let ghost b_id = b;
        proof {
            lemma_same_graph_refl(ts0);
            lemma_view_members(ts0, a_id); lemma_view_members(ts0, b_id);
            assert(arith_ok_all(m, a_id, b_id) ==> arith_ok(m, a_id, b_id, 1));
        }
//@   endghost
//@   ghost before-loop 1
                let ghost xs = a@; let ghost ys = b@;
//@   endghost
//@   loop 1 binder it
                    invariant
                        self.inv(), same_graph(ts0, self.types@), self.variables == old(self).variables, //# C07 mul.loop1.aux1
                        forall|o: Seq<TypeNode>| #[trigger] same_graph(o, ts0) ==> same_graph(o, self.types@), //# C07 mul.loop1.aux2
                        tview(self.types@) == m, ts0 == old(self).types@, xs.len() == ys.len(), //# C07 mul.loop1.aux3
                        it.seq().len() == xs.len(), //# - mul.loop1.aux4
                        forall|i: int| 0 <= i < xs.len() ==> *(#[trigger] it.seq()[i]).0 == xs[i] && *it.seq()[i].1 == ys[i], //# - mul.loop1.aux5
                        m[a_id.0 as int] is Tuple, m[b_id.0 as int] is Tuple, //# C07 mul.loop1.aux6
                        xs == m[a_id.0 as int]->Tuple_0@, ys == m[b_id.0 as int]->Tuple_0@, //# C07 mul.loop1.aux7
                        forall|k: int| 0 <= k < xs.len() ==> (#[trigger] xs[k]).0 < ts0.len() && (#[trigger] ys[k]).0 < ts0.len(), //# C07 mul.loop1.aux8
                        forall|i: int| 0 <= i < it.index@ ==> #[trigger] arith_ok_all(m, xs[i], ys[i]), //# C03 mul.loop1.members_checked
//@   endloop
//@   ghost loop-body 1
                    proof { lemma_arith_elem(m, a_id, b_id, it.index@); }
//@   endghost
//@   ghost after-loop 1
                proof { lemma_arith_intro(m, a_id, b_id); }
//@   endghost
//@ end

//@ fn sylt-compiler/src/typechecker.rs cmp
//@   in TypeChecker
//@   props C03 C07
//@   attr #[verifier::exec_allows_no_decreases_clause]
//@   attr #[verifier::loop_isolation(false)]
//@   ret r
//@   rewrite guard
//@- (Type::Tuple(a), Type::Tuple(b)) if a.len() == b.len() => {
//@   endrewrite
//@   spec
        requires
            old(self).inv(), //# C03 cmp.pre.inv
            old(self).valid(a), old(self).valid(b), //# C07 cmp.pre.ids_in_range
        ensures
            final(self).inv(), //# C02 cmp.keeps_invariant
            same_graph(old(self).types@, final(self).types@), //# C03 cmp.no_observable_change
            forall|o: Seq<TypeNode>| #[trigger] same_graph(o, old(self).types@) ==> same_graph(o, final(self).types@), //# C07 cmp.spec.aux1
            tview(final(self).types@) == tview(old(self).types@), //# C03 cmp.view_unchanged
            final(self).variables == old(self).variables, //# C07 cmp.spec.aux2
            r is Ok <==> cmp_ok_all(tview(old(self).types@), a, b), //# C02,C03 cmp.ok_iff_table
            r is Err ==> r->Err_0.len() >= 1 && r->Err_0[0].span() == span, //# C03 cmp.error_carries_span
//@   endspec
//@   ghost entry
        let ghost ts0 = self.types@; let ghost m = tview(ts0); let ghost a_id = a; let ghost b_id = b;
        proof {
            lemma_same_graph_refl(ts0);
            lemma_view_members(ts0, a_id); lemma_view_members(ts0, b_id);
            assert(cmp_ok_all(m, a_id, b_id) ==> cmp_ok(m, a_id, b_id, 1));
        }
//@   endghost
//@   ghost before-loop 1
                let ghost xs = a@; let ghost ys = b@;
//@   endghost
//@   loop 1 binder it
                    invariant
                        self.inv(), same_graph(ts0, self.types@), self.variables == old(self).variables, //# C07 cmp.loop1.aux1
                        forall|o: Seq<TypeNode>| #[trigger] same_graph(o, ts0) ==> same_graph(o, self.types@), //# C07 cmp.loop1.aux2
                        tview(self.types@) == m, ts0 == old(self).types@, xs.len() == ys.len(), //# C07 cmp.loop1.aux3
                        it.seq().len() == xs.len(), //# - cmp.loop1.aux4
                        forall|i: int| 0 <= i < xs.len() ==> *(#[trigger] it.seq()[i]).0 == xs[i] && *it.seq()[i].1 == ys[i], //# - cmp.loop1.aux5
                        m[a_id.0 as int] is Tuple, m[b_id.0 as int] is Tuple, //# C07 cmp.loop1.aux6
                        xs == m[a_id.0 as int]->Tuple_0@, ys == m[b_id.0 as int]->Tuple_0@, //# C07 cmp.loop1.aux7
                        forall|k: int| 0 <= k < xs.len() ==> (#[trigger] xs[k]).0 < ts0.len() && (#[trigger] ys[k]).0 < ts0.len(), //# C07 cmp.loop1.aux8
                        forall|i: int| 0 <= i < it.index@ ==> #[trigger] cmp_ok_all(m, xs[i], ys[i]), //# C03 cmp.loop1.members_checked
//@   endloop
//@   ghost loop-body 1
                    proof { lemma_cmp_elem(m, a_id, b_id, it.index@); }
//@   endghost
//@   ghost after-loop 1
                proof { lemma_cmp_intro(m, a_id, b_id); }
//@   endghost
//@ end

//@ fn sylt-compiler/src/typechecker.rs div
//@   in TypeChecker
//@   props C03 C07
//@   attr #[verifier::exec_allows_no_decreases_clause]
//@   attr #[verifier::loop_isolation(false)]
//@   ret r
//@   rewrite guard
//@- (Type::Tuple(a), Type::Tuple(b)) if a.len() == b.len() => {
//@   endrewrite
//@   spec
        requires
            old(self).inv(), //# C03 div.pre.inv
            old(self).valid(a), old(self).valid(b), //# C07 div.pre.ids_in_range
        ensures
            final(self).inv(), //# C02 div.keeps_invariant
            same_graph(old(self).types@, final(self).types@), //# C03 div.no_observable_change
            forall|o: Seq<TypeNode>| #[trigger] same_graph(o, old(self).types@) ==> same_graph(o, final(self).types@), //# C07 div.spec.aux1
            tview(final(self).types@) == tview(old(self).types@), //# C03 div.view_unchanged
            final(self).variables == old(self).variables, //# C07 div.spec.aux2
            r is Ok <==> div_ok_all(tview(old(self).types@), a, b), //# C02,C03 div.ok_iff_table
            r is Err ==> r->Err_0.len() >= 1 && r->Err_0[0].span() == span, //# C03 div.error_carries_span
//@   endspec
//@   ghost entry
        let ghost ts0 = self.types@; let ghost m = tview(ts0); let ghost a_id = a; let ghost b_id = b;
        proof {
            lemma_same_graph_refl(ts0);
            lemma_view_members(ts0, a_id); lemma_view_members(ts0, b_id);
            assert(div_ok_all(m, a_id, b_id) ==> div_ok(m, a_id, b_id, 1));
        }
//@   endghost
//@   ghost before-loop 1
                let ghost xs = a@;
//@   endghost
//@   loop 1 binder it
                    invariant
                        self.inv(), same_graph(ts0, self.types@), self.variables == old(self).variables, //# C07 div.loop1.aux1
                        forall|o: Seq<TypeNode>| #[trigger] same_graph(o, ts0) ==> same_graph(o, self.types@), //# C07 div.loop1.aux2
                        tview(self.types@) == m, ts0 == old(self).types@, //# C07 div.loop1.aux3
                        it.seq().len() == xs.len(), //# - div.loop1.aux4
                        forall|i: int| 0 <= i < xs.len() ==> *(#[trigger] it.seq()[i]) == xs[i], //# - div.loop1.aux5
                        m[a_id.0 as int] is Tuple, is_num(m[b_id.0 as int]), b == b_id, //# C07 div.loop1.aux6
                        xs == m[a_id.0 as int]->Tuple_0@, //# C07 div.loop1.aux7
                        forall|k: int| 0 <= k < xs.len() ==> (#[trigger] xs[k]).0 < ts0.len(), //# C07 div.loop1.aux8
                        forall|i: int| 0 <= i < it.index@ ==> #[trigger] div_ok_all(m, xs[i], b_id), //# C03 div.loop1.members_checked
//@   endloop
//@   ghost loop-body 1
                    proof { lemma_div_scalar_elem(m, a_id, b_id, it.index@); }
//@   endghost
//@   ghost after-loop 1
                proof { lemma_div_scalar_intro(m, a_id, b_id); }
//@   endghost
//@   ghost before-loop 2
                let ghost xs = a@; let ghost ys = b@;
//@   endghost
//@   loop 2 binder it
                    invariant
                        self.inv(), same_graph(ts0, self.types@), self.variables == old(self).variables, //# C07 div.loop2.aux1
                        forall|o: Seq<TypeNode>| #[trigger] same_graph(o, ts0) ==> same_graph(o, self.types@), //# C07 div.loop2.aux2
                        tview(self.types@) == m, ts0 == old(self).types@, xs.len() == ys.len(), //# C07 div.loop2.aux3
                        it.seq().len() == xs.len(), //# - div.loop2.aux4
                        forall|i: int| 0 <= i < xs.len() ==> *(#[trigger] it.seq()[i]).0 == xs[i] && *it.seq()[i].1 == ys[i], //# - div.loop2.aux5
                        m[a_id.0 as int] is Tuple, m[b_id.0 as int] is Tuple, //# C07 div.loop2.aux6
                        xs == m[a_id.0 as int]->Tuple_0@, ys == m[b_id.0 as int]->Tuple_0@, //# C07 div.loop2.aux7
                        forall|k: int| 0 <= k < xs.len() ==> (#[trigger] xs[k]).0 < ts0.len() && (#[trigger] ys[k]).0 < ts0.len(), //# C07 div.loop2.aux8
                        forall|i: int| 0 <= i < it.index@ ==> #[trigger] div_ok_all(m, xs[i], ys[i]), //# C03 div.loop2.members_checked
//@   endloop
//@   ghost loop-body 2
                    proof { lemma_div_elem(m, a_id, b_id, it.index@); }
//@   endghost
//@   ghost after-loop 2
                proof { lemma_div_intro(m, a_id, b_id); }
//@   endghost
//@ end

//@ fn sylt-compiler/src/typechecker.rs union
//@   in TypeChecker
//@   props C02 C07
//@   rewrite rule:R-tmp
//@-         for (con, span) in self.types[b].constraints.clone().iter() {
//@+         let hoisted_tmp = self.types[b].constraints.clone(); for (con, span) in hoisted_tmp.iter() {
//@   why Verus does not accept a temporary in the iterator expression of a for loop; hoisting the clone into a let evaluates the same expression once, before the loop, exactly as Rust does
//@   endrewrite
//@   spec
        requires
            old(self).inv(), //# C02 union.pre.inv
            old(self).valid(a), old(self).valid(b), //# C07 union.pre.ids_in_range
            shape_eq(ty_of(old(self).types@, a), ty_of(old(self).types@, b)), //# C02,C03 union.pre.the_two_classes_have_types_of_one_shape
        ensures
            final(self).inv(), //# C02,C07 union.keeps_invariant
            final(self).types.len() == old(self).types.len(), //# C07 union.spec.aux1
            forall|i: int| 0 <= i < old(self).types.len() ==> (#[trigger] final(self).types@[i]).ty == old(self).types@[i].ty, //# C02 union.types_untouched
            exists|w: int| #[trigger] merged_into(old(self).types@, final(self).types@, rep0(old(self).types@, a.0 as int), rep0(old(self).types@, b.0 as int), w), //# C02,C03 union.partition_merges_exactly_two_classes
            forall|c: Constraint| #[trigger] cons_of(final(self).types@, a.0 as int).contains(c) <==>
                cons_of(old(self).types@, a.0 as int).contains(c) || cons_of(old(self).types@, b.0 as int).contains(c), //# C02,C03,C05 union.merged_class_keeps_all_constraints
            forall|i: int| 0 <= i < old(self).types.len() && rep0(old(self).types@, i) != rep0(old(self).types@, a.0 as int)
                && rep0(old(self).types@, i) != rep0(old(self).types@, b.0 as int)
                ==> #[trigger] cons_of(final(self).types@, i) == cons_of(old(self).types@, i), //# C02,C03,C05 union.other_classes_keep_constraints
            merges_from(old(self).types@, final(self).types@), //# C02 union.classes_only_merge
            cons_from(old(self).types@, final(self).types@), //# C02,C03,C05 union.no_constraint_dropped
            heads_from(old(self).types@, final(self).types@), //# C02,C03 union.known_types_keep_their_shape
            rep0(final(self).types@, a.0 as int) == rep0(final(self).types@, b.0 as int), //# C02,C03 union.the_two_ids_end_up_in_one_class
            final(self).variables == old(self).variables, //# C07 union.spec.aux2
//@   endspec
//@   ghost entry
        let ghost ts0 = self.types@;
        let ghost a0 = a; let ghost b0 = b;
        proof { axiom_constraint_key_order(); lemma_same_graph_refl(ts0); lemma_rep0_props(ts0, a0.0 as int); lemma_rep0_props(ts0, b0.0 as int); }
//@   endghost
//@   ghost after
//@|         let TyID(b) = self.find(b);
        let ghost ts2 = self.types@;
        let ghost ra = a; let ghost rb = b;
        proof {
            lemma_union_roots(ts0, ts2, a0.0 as int, b0.0 as int, a, b);
            lemma_same_roots(ts0, ts2);
            assert(ts2.len() == self.types.len());
            if a != b { lemma_rep0_props(ts2, a as int); lemma_rep0_props(ts2, b as int); lemma_two_roots_le_sum(ts2, ts2.len() as int, a as int, b as int); }
            if a == b { lemma_union_noop(ts0, ts2, a0.0 as int, b0.0 as int); }
        }
//@   endghost
//@   ghost before
//@|         let hoisted_tmp = self.types[b].constraints.clone(); for (con, span) in hoisted_tmp.iter() {
        let ghost ts3 = self.types@;
//@   endghost
//@   loop 1 binder it
            invariant
                vstd::std_specs::btree::key_obeys_cmp_spec::<Constraint>(), //# C02,C07 union.loop1.aux1
                self.types@.len() == ts3.len(), (a as int) < ts3.len(), (b as int) < ts3.len(), a != b, //# C02,C07 union.loop1.aux2
                hoisted_tmp@ == ts3[b as int].constraints@, //# C07 union.loop1.aux3
                forall|i: int| 0 <= i < ts3.len() ==> (#[trigger] self.types@[i]).parent == ts3[i].parent && self.types@[i].ty == ts3[i].ty && self.types@[i].size == ts3[i].size, //# C02,C07 union.loop1.aux4
                forall|i: int| 0 <= i < ts3.len() && i != a as int ==> (#[trigger] self.types@[i]).constraints == ts3[i].constraints, //# C02,C07 union.loop1.aux5
                forall|c: Constraint| #[trigger] self.types@[a as int].constraints@.dom().contains(c) <==> ts3[a as int].constraints@.dom().contains(c)
                    || exists|j: int| 0 <= j < it.index@ && *(#[trigger] it.seq()[j]).0 == c, //# C02,C03,C05 union.loop.constraints_accumulate
                self.variables == old(self).variables, //# C07 union.loop1.aux6
//@   endloop
//@   ghost after-loop 1
        proof {
            lemma_union_final(ts0, ts2, ts3, self.types@, a0.0 as int, b0.0 as int, ra, rb, a, b);
        }
//@   endghost
//@ end
}

/// same parent links => same forest and same representatives
proof fn lemma_parents_same(a: Seq<TypeNode>, b: Seq<TypeNode>)
    requires wf_forest(a), a.len() == b.len(), forall|i: int| 0 <= i < a.len() ==> (#[trigger] b[i]).parent == a[i].parent,
    ensures wf_forest(b), forall|i: int| 0 <= i < a.len() ==> #[trigger] rep0(b, i) == rep0(a, i),
{
    let h = the_h(a);
    assert(hok(b, h));
    assert forall|i: int| 0 <= i < a.len() implies #[trigger] rep0(b, i) == rep0(a, i) by {
        lemma_rep_indep(b, the_h(b), h, i);
        lemma_parents_same_rep(a, b, h, i);
    }
}
proof fn lemma_parents_same_rep(a: Seq<TypeNode>, b: Seq<TypeNode>, h: Seq<nat>, i: int)
    requires hok(a, h), hok(b, h), a.len() == b.len(), forall|j: int| 0 <= j < a.len() ==> (#[trigger] b[j]).parent == a[j].parent, 0 <= i < a.len(),
    ensures rep(b, h, i) == rep(a, h, i)
    decreases h[i]
{
    match a[i].parent {
        Some(p) => { lemma_parents_same_rep(a, b, h, p.0 as int); }
        None => {}
    }
}

impl TypeChecker {
// ---- functions left outside (assumed contracts; signatures are taken from the repository) ---------
//@ fn sylt-compiler/src/typechecker.rs inner_copy
//@   in TypeChecker
//@   props C02 C03 C05 C07
//@   splitmatch 3
//@   split 1 { proof { assume(false); } Type::Unknown }
//@   splitalso 1 { proof { assume(false); } Constraint::Neg }
//@   attr #[verifier::exec_allows_no_decreases_clause]
//@   attr #[verifier::loop_isolation(false)]
//@   ret r
//@   rewrite equivalent
//@- self.find_node_mut(new_ty).constraints = self
//@-     .find_node(old_ty)
//@-     .constraints
//@-     .clone()
//@-     .iter()
//@-     .map(|(con, span)| {
//@-         (
//@-             match &con {
//@+ let hoisted_cons = self.find_node(old_ty).constraints.clone();
//@+ let mut new_cons: BTreeMap<Constraint, Span> = BTreeMap::new();
//@+ for (con, span) in hoisted_cons.iter() {
//@+     let mapped_con =
//@+             match con {
//@   why closure capturing &mut self + map/collect. In `place = value` Rust evaluates the value first, so building the map in a local and assigning it afterwards is the same; collecting pairs into a BTreeMap inserts them in iteration order, a later equal key replacing the earlier one, which is this loop; `match &con` on a `&Constraint` binds the same references as `match con`
//@   endrewrite
//@   rewrite equivalent
//@- C::Variant(v.clone(), x.map(|y| self.inner_copy(y, seen)))
//@+ C::Variant(v.clone(), match *x { Some(y) => Some(self.inner_copy(y, seen)), None => None })
//@   why closure capturing &mut self; Option::map is this match
//@   endrewrite
//@   rewrite equivalent
//@-             },
//@-             *span,
//@-         )
//@-     })
//@-     .collect();
//@+             };
//@+     new_cons.insert(mapped_con, *span);
//@+ }
//@+ self.find_node_mut(new_ty).constraints = new_cons;
//@   why second half of the rewrite above
//@   endrewrite
//@   rewrite equivalent
//@- self.find_node_mut(new_ty).ty = match ty {
//@+ let new_type = match ty {
//@   why the assigned value is evaluated before the assignee (it has to: both borrow self mutably); see the closing half
//@   endrewrite
//@   rewrite equivalent
//@- };
//@- new_ty
//@+ };
//@+ self.find_node_mut(new_ty).ty = new_type;
//@+ new_ty
//@   why closing half of the rewrite above
//@   endrewrite
//@   rewrite equivalent
//@- Type::Tuple(tys.iter().map(|ty| self.inner_copy(*ty, seen)).collect())
//@+ Type::Tuple({ let mut copied: Vec<TyID> = Vec::new(); for ty in tys.iter() { copied.push(self.inner_copy(*ty, seen)); } copied })
//@   why closure capturing &mut self + collect; map/collect into a Vec pushes one result per element, in order
//@   endrewrite
//@   rewrite equivalent count=4
//@- args.iter().map(|ty| self.inner_copy(*ty, seen)).collect(),
//@+ { let mut copied: Vec<TyID> = Vec::new();
//@+ for ty in args.iter() { copied.push(self.inner_copy(*ty, seen)); }
//@+ copied },
//@   why as above (a block expression in the same argument position keeps the evaluation order of the arguments)
//@   endrewrite
//@   rewrite equivalent count=2
//@- fields
//@-     .iter()
//@-     .map(|(name, (span, ty))| (name.clone(), (*span, self.inner_copy(*ty, seen))))
//@-     .collect(),
//@+ { let mut copied: BTreeMap<String, (Span, TyID)> = BTreeMap::new();
//@+ for (name, (span, ty)) in fields.iter() { copied.insert(name.clone(), (*span, self.inner_copy(*ty, seen))); }
//@+ copied },
//@   why as above, into a BTreeMap (keys of the source map are distinct, so no insert replaces another)
//@   endrewrite
//@   rewrite equivalent
//@- variants
//@-     .iter()
//@-     .map(|(name, (span, ty))| (name.clone(), (*span, self.inner_copy(*ty, seen))))
//@-     .collect(),
//@+ { let mut copied: BTreeMap<String, (Span, TyID)> = BTreeMap::new();
//@+ for (name, (span, ty)) in variants.iter() { copied.insert(name.clone(), (*span, self.inner_copy(*ty, seen))); }
//@+ copied },
//@   why as above
//@   endrewrite
//@   spec
        requires old(self).inv2(), old(self).valid(old_ty), //# C07 inner_copy.pre.id_in_range
            seen_ok(old(seen)@, old(self).types@.len() as int), //# C07 inner_copy.pre.copies_so_far_are_nodes
            vstd::std_specs::hash::obeys_key_model::<TyID>(), //# C07 inner_copy.pre.key_model
        ensures final(self).inv2(), final(self).grows(old(self)), final(self).valid(r), //# C02,C07 inner_copy.keeps_invariant
            seen_ok(final(seen)@, final(self).types@.len() as int), //# C07 inner_copy.copies_are_nodes
            prefix_from(old(self).types@, final(self).types@), //# C02 inner_copy.existing_nodes_keep_type_constraints_and_class
            !old(seen)@.contains_key(TyID(rep0(old(self).types@, old_ty.0 as int) as usize)) ==> shape_eq(ty_of(old(self).types@, old_ty), ty_of(final(self).types@, r)), //# C02,C03,C05 inner_copy.a_fresh_copy_has_the_shape_of_the_original
            seen_from(old(seen)@, final(seen)@), //# C02 inner_copy.the_table_of_copies_only_grows
            copied_id(old(self).types@, final(seen)@, old_ty, r), //# C02 inner_copy.the_result_is_recorded_as_the_copy_of_the_class
            !old(seen)@.contains_key(TyID(rep0(old(self).types@, old_ty.0 as int) as usize)) ==> forall|c: Constraint| #[trigger] cons_of(old(self).types@, old_ty.0 as int).contains(c)
                ==> exists|d: Constraint| #[trigger] cons_of(final(self).types@, r.0 as int).contains(d) && con_copy(old(self).types@, final(seen)@, c, d), //# C02,C03,C05 inner_copy.a_fresh_copy_carries_a_copy_of_every_deferred_constraint
//@   endspec
//@   ghost entry
        let ghost ts0 = self.types@; let ghost m0 = seen@; let ghost p0 = old_ty;
        broadcast use lemma_same_graph_prefix, vstd::std_specs::hash::group_hash_axioms;
        proof { axiom_constraint_key_order(); axiom_string_key_order(); lemma_prefix_refl(ts0); }
//@   endghost
//@   ghost before
//@| if let Some(res) = seen.get(&old_ty) {
        assert(old_ty == TyID(rep0(ts0, p0.0 as int) as usize)); //# - inner_copy.hint1
//@   endghost
//@   ghost after
//@| let new_ty = self.push_type(Type::Unknown);
        let ghost sp = self.types@;
        proof { lemma_prefix_refl(sp); reveal(push_frame); }
//@   endghost
//@   ghost after
//@| seen.insert(old_ty, new_ty);
        let ghost m1 = seen@;
        proof { assert(m1.contains_key(old_ty) && m1[old_ty] == new_ty); assert(seen_ext(m0, m1)); assert(seen_ext(m1, m1)); }
//@   endghost
//@   loop 1 binder it
//@| for (con, span) in hoisted_cons.iter()
            invariant
                self.copy_inv(old(self), seen@, ts0, sp, new_ty, old_ty), seen_ext(m1, seen@), //# C02,C07 inner_copy.loop1.aux1
                vstd::std_specs::btree::key_obeys_cmp_spec::<Constraint>(), //# C07 inner_copy.loop1.aux2
                cons_in_range(hoisted_cons@, self.types@.len() as int), cons_in_range(new_cons@, self.types@.len() as int), //# C07 inner_copy.loop1.aux3
                forall|j: int| 0 <= j < it.seq().len() ==> hoisted_cons@.dom().contains(*(#[trigger] it.seq()[j]).0), //# - inner_copy.loop1.aux4
                forall|j: int| 0 <= j < it.index@ ==> exists|d: Constraint| #[trigger] new_cons@.dom().contains(d) && con_copy(ts0, seen@, *(#[trigger] it.seq()[j]).0, d), //# C02,C03 inner_copy.loop1.every_constraint_visited_has_its_copy
//@   endloop
//@   ghost loop-body 1
        let ghost mb = seen@; let ghost nb = new_cons@;
        proof { assert(seen_ext(mb, mb)); }
//@   endghost
//@   ghost after
//@| new_cons.insert(mapped_con, *span);
        proof {
            assert(seen_ext(mb, seen@));
            assert(con_kind(*con) == con_kind(mapped_con) && con_rest_eq(*con, mapped_con) && (con_id(*con) is Some <==> con_id(mapped_con) is Some)
                && (con_id(*con) is Some ==> copied_id(ts0, seen@, con_id(*con)->Some_0, con_id(mapped_con)->Some_0))); //# C02,C03,C05 inner_copy.the_copy_of_a_constraint_is_of_the_same_kind_and_about_the_copied_type
            lemma_con_copy_intro(ts0, seen@, *con, mapped_con);
            assert(new_cons@.dom().contains(mapped_con) && con_copy(ts0, seen@, *con, mapped_con));
            assert forall|j: int| 0 <= j < it.index@ implies exists|d: Constraint| #[trigger] new_cons@.dom().contains(d) && con_copy(ts0, seen@, *(#[trigger] it.seq()[j]).0, d) by {
                let d0 = choose|d: Constraint| #[trigger] nb.dom().contains(d) && con_copy(ts0, mb, *it.seq()[j].0, d);
                assert(new_cons@.dom().contains(d0));
                lemma_con_copy_mono(ts0, mb, seen@, *it.seq()[j].0, d0);
            }
        }
//@   endghost
//@   ghost before
//@| self.find_node_mut(new_ty).constraints = new_cons;
        let ghost new_cons_g = new_cons@;
        proof {
            assert(hoisted_cons@.dom() == cons_of(ts0, p0.0 as int));
            assert forall|c: Constraint| #[trigger] hoisted_cons@.dom().contains(c) implies exists|d: Constraint| #[trigger] new_cons_g.dom().contains(d) && con_copy(ts0, seen@, c, d) by { }
        }
//@   endghost
//@   ghost before
//@| let ty = self.find_type(old_ty);
        let ghost sq = self.types@; let ghost ml = seen@; let ghost ncl = new_cons_g;
        proof { lemma_prefix_refl(sq); assert(seen_ext(ml, ml)); }
//@   endghost
//@   ghost after
//@| self.find_node_mut(new_ty).ty = new_type;
        proof {
            assert(seen@.contains_key(old_ty) && seen@[old_ty] == new_ty);
            assert(cons_of(self.types@, new_ty.0 as int) == ncl.dom());
            assert forall|c: Constraint| #[trigger] cons_of(ts0, p0.0 as int).contains(c) implies exists|d: Constraint| #[trigger] cons_of(self.types@, new_ty.0 as int).contains(d) && con_copy(ts0, seen@, c, d) by {
                let d0 = choose|d: Constraint| #[trigger] ncl.dom().contains(d) && con_copy(ts0, ml, c, d);
                lemma_con_copy_mono(ts0, ml, seen@, c, d0);
            }
        }
//@   endghost
//@   loop 2 binder it
//@| for ty in tys.iter()
            invariant self.copy_inv(old(self), seen@, ts0, sq, new_ty, old_ty), seen_ext(m1, seen@), seen_ext(ml, seen@), ids_below(copied@, self.types@.len() as int), //# C02,C07 inner_copy.loop2.aux1
                copied@.len() == it.index@, //# C03,C05 inner_copy.loop2.one_copy_per_element
//@   endloop
//@   loop 3 binder it
//@| for ty in args.iter()
            invariant self.copy_inv(old(self), seen@, ts0, sq, new_ty, old_ty), seen_ext(m1, seen@), seen_ext(ml, seen@), ids_below(copied@, self.types@.len() as int), //# C02,C07 inner_copy.loop3.aux1
                copied@.len() == it.index@, //# C03,C05 inner_copy.loop3.one_copy_per_element
//@   endloop
//@   loop 4 binder it
//@| for (name, (span, ty)) in fields.iter()
            invariant self.copy_inv(old(self), seen@, ts0, sq, new_ty, old_ty), seen_ext(m1, seen@), seen_ext(ml, seen@), fields_in_range(copied, self.types@.len() as int), vstd::std_specs::btree::key_obeys_cmp_spec::<String>(), //# C02,C07 inner_copy.loop4.aux1
                forall|j: int| 0 <= j < it.seq().len() ==> fields@.contains_pair(*(#[trigger] it.seq()[j]).0, *it.seq()[j].1), //# - inner_copy.loop4.aux2
//@   endloop
//@   ghost before-loop 5
            let ghost l5 = self.types@.len();
//@   endghost
//@   loop 5
//@| for ty in args.iter()
            invariant self.copy_inv(old(self), seen@, ts0, sq, new_ty, old_ty), seen_ext(m1, seen@), seen_ext(ml, seen@), ids_below(copied@, self.types@.len() as int), self.types@.len() >= l5, //# C02,C07 inner_copy.loop5.aux1
//@   endloop
//@   loop 6 binder it
//@| for (name, (span, ty)) in fields.iter()
            invariant self.copy_inv(old(self), seen@, ts0, sq, new_ty, old_ty), seen_ext(m1, seen@), seen_ext(ml, seen@), fields_in_range(copied, self.types@.len() as int), vstd::std_specs::btree::key_obeys_cmp_spec::<String>(), //# C02,C07 inner_copy.loop6.aux1
                forall|j: int| 0 <= j < it.seq().len() ==> fields@.contains_pair(*(#[trigger] it.seq()[j]).0, *it.seq()[j].1), //# - inner_copy.loop6.aux2
                forall|name: String| #[trigger] copied@.dom().contains(name) <==> (exists|j: int| 0 <= j < it.index@ && *(#[trigger] it.seq()[j]).0 == name), //# C05 inner_copy.loop6.the_copy_has_the_names_visited_so_far
//@   endloop
//@   ghost after-loop 6
            assert(copied@.dom() =~= fields@.dom()); //# C05 inner_copy.the_copy_of_a_blob_has_its_field_names
//@   endghost
//@   ghost before-loop 7
            let ghost l7 = self.types@.len();
//@   endghost
//@   loop 7
//@| for ty in args.iter()
            invariant self.copy_inv(old(self), seen@, ts0, sq, new_ty, old_ty), seen_ext(m1, seen@), seen_ext(ml, seen@), ids_below(copied@, self.types@.len() as int), self.types@.len() >= l7, //# C02,C07 inner_copy.loop7.aux1
//@   endloop
//@   loop 8 binder it
//@| for (name, (span, ty)) in variants.iter()
            invariant self.copy_inv(old(self), seen@, ts0, sq, new_ty, old_ty), seen_ext(m1, seen@), seen_ext(ml, seen@), fields_in_range(copied, self.types@.len() as int), vstd::std_specs::btree::key_obeys_cmp_spec::<String>(), //# C02,C07 inner_copy.loop8.aux1
                forall|j: int| 0 <= j < it.seq().len() ==> variants@.contains_pair(*(#[trigger] it.seq()[j]).0, *it.seq()[j].1), //# - inner_copy.loop8.aux2
                forall|name: String| #[trigger] copied@.dom().contains(name) <==> (exists|j: int| 0 <= j < it.index@ && *(#[trigger] it.seq()[j]).0 == name), //# C05 inner_copy.loop8.the_copy_has_the_names_visited_so_far
//@   endloop
//@   ghost after-loop 8
            assert(copied@.dom() =~= variants@.dom()); //# C05 inner_copy.the_copy_of_an_enum_has_its_variant_names
//@   endghost
//@   ghost before-loop 9
            let ghost l9 = self.types@.len();
//@   endghost
//@   loop 9
//@| for ty in args.iter()
            invariant self.copy_inv(old(self), seen@, ts0, sq, new_ty, old_ty), seen_ext(m1, seen@), seen_ext(ml, seen@), ids_below(copied@, self.types@.len() as int), self.types@.len() >= l9, //# C02,C07 inner_copy.loop9.aux1
//@   endloop
//@ end
//@ fn sylt-compiler/src/typechecker.rs inner_bake_type
//@   in TypeChecker
//@   props C07
//@   attr #[verifier::loop_isolation(false)]
//@   ret r
//@   rewrite equivalent
//@- return seen[&a].clone();
//@+ return (match seen.get(&a) { Some(known) => known.clone(), None => unreachable!() });
//@   why vstd has no specification for Index on HashMap; map[&k] is get(&k) that panics when the key is absent - the panic is kept as the obligation unreachable!()
//@   endrewrite
//@   rewrite equivalent
//@- Type::Tuple(tys) => RuntimeType::Tuple(
//@-     tys.iter()
//@-         .map(|ty| self.inner_bake_type(*ty, seen))
//@-         .collect(),
//@- ),
//@+ Type::Tuple(tys) => RuntimeType::Tuple({ let mut baked: Vec<RuntimeType> = Vec::new();
//@+ for ty in tys.iter() { baked.push(self.inner_bake_type(*ty, seen)); }
//@+ baked }),
//@   why closure capturing &mut self + collect; map/collect into a Vec pushes one result per element, in order
//@   endrewrite
//@   rewrite equivalent
//@- args.iter()
//@-     .map(|ty| self.inner_bake_type(*ty, seen))
//@-     .collect(),
//@+ { let mut baked: Vec<RuntimeType> = Vec::new();
//@+ for ty in args.iter() { baked.push(self.inner_bake_type(*ty, seen)); }
//@+ baked },
//@   why as above
//@   endrewrite
//@   rewrite equivalent count=2
//@- fields
//@-     .iter()
//@-     .map(|(name, ty)| (name.clone(), self.inner_bake_type(ty.1, seen)))
//@-     .collect(),
//@+ { let mut baked: BTreeMap<String, RuntimeType> = BTreeMap::new();
//@+ for (name, ty) in fields.iter() { baked.insert(name.clone(), self.inner_bake_type(ty.1, seen)); }
//@+ baked },
//@   why as above, into a BTreeMap
//@   endrewrite
//@   rewrite equivalent
//@- variants
//@-     .iter()
//@-     .map(|(name, ty)| (name.clone(), self.inner_bake_type(ty.1, seen)))
//@-     .collect(),
//@+ { let mut baked: BTreeMap<String, RuntimeType> = BTreeMap::new();
//@+ for (name, ty) in variants.iter() { baked.insert(name.clone(), self.inner_bake_type(ty.1, seen)); }
//@+ baked },
//@   why as above
//@   endrewrite
//@   rewrite rule:R-opaque
//@- match self.namespace_to_file.get(&span.file_id).unwrap() {
//@-     FileOrLib::Lib(name) => name.to_string(),
//@-     FileOrLib::File(path) => path.to_string_lossy().to_string(),
//@- },
//@+ opaque_string(),
//@   why the file name of an externblob's declaration (a string used in messages only) is replaced by an uninterpreted string: FileOrLib / Path are placeholders; with it the `.unwrap()` of that lookup is NOT verified (it needs every span's file id to be a key of namespace_to_file, which only the unverified glue establishes)
//@   endrewrite
//@   spec
        requires old(self).inv2(), old(self).valid(a), //# C07 inner_bake_type.pre.id_in_range
            keys_below(old(seen)@.dom(), old(self).types@.len() as int), //# C07 inner_bake_type.pre.seen_keys_are_nodes
            vstd::std_specs::hash::obeys_key_model::<TyID>(), //# C07 inner_bake_type.pre.key_model
        ensures final(self).inv2(), final(self).grows(old(self)), final(self).types@.len() == old(self).types@.len(), //# C02,C07 inner_bake_type.keeps_invariant
            keys_below(final(seen)@.dom(), final(self).types@.len() as int), //# C07 inner_bake_type.seen_keys_stay_nodes
            forall|k: TyID| old(seen)@.contains_key(k) ==> #[trigger] final(seen)@.contains_key(k), //# C07 inner_bake_type.seen_only_grows
        decreases unseen(old(self).types@.len(), old(seen)@.dom()), //# C07 inner_bake_type.terminates_every_call_marks_a_class_not_seen_before
//@   endspec
//@   ghost entry
        let ghost n = self.types@.len(); let ghost s0 = seen@.dom();
        broadcast use vstd::std_specs::hash::group_hash_axioms, lemma_unseen_mono;
        proof { axiom_string_key_order(); assert(self.types@.len() == self.types.len()); }
//@   endghost
//@   ghost before
//@| let res = match self.find_type(a) {
        let ghost s1 = seen@.dom();
        assert(s1.contains(a) && !s0.contains(a)); //# C07 inner_bake_type.the_class_is_marked_before_its_parts_are_visited
        proof { lemma_unseen_strict(n, s0, s1, a); }
//@   endghost
//@   loop 1
//@| for ty in tys.iter()
            invariant self.bake_inv(old(self), seen@.dom(), s1, n), ids_below(tys@, n as int), //# C07 inner_bake_type.loop1.aux1
//@   endloop
//@   loop 2
//@| for ty in args.iter()
            invariant self.bake_inv(old(self), seen@.dom(), s1, n), ids_below(args@, n as int), self.valid(ret), //# C07 inner_bake_type.loop2.aux1
//@   endloop
//@   loop 3 binder it
//@| for (name, ty) in fields.iter()
            invariant self.bake_inv(old(self), seen@.dom(), s1, n), fields_in_range(fields, n as int), vstd::std_specs::btree::key_obeys_cmp_spec::<String>(), //# C07 inner_bake_type.loop3.aux1
                forall|j: int| 0 <= j < it.seq().len() ==> fields@.contains_pair(*(#[trigger] it.seq()[j]).0, *it.seq()[j].1), //# - inner_bake_type.loop3.aux2
//@   endloop
//@   loop 4 binder it
//@| for (name, ty) in fields.iter()
            invariant self.bake_inv(old(self), seen@.dom(), s1, n), fields_in_range(fields, n as int), vstd::std_specs::btree::key_obeys_cmp_spec::<String>(), //# C07 inner_bake_type.loop4.aux1
                forall|j: int| 0 <= j < it.seq().len() ==> fields@.contains_pair(*(#[trigger] it.seq()[j]).0, *it.seq()[j].1), //# - inner_bake_type.loop4.aux2
//@   endloop
//@   loop 5 binder it
//@| for (name, ty) in variants.iter()
            invariant self.bake_inv(old(self), seen@.dom(), s1, n), fields_in_range(variants, n as int), vstd::std_specs::btree::key_obeys_cmp_spec::<String>(), //# C07 inner_bake_type.loop5.aux1
                forall|j: int| 0 <= j < it.seq().len() ==> variants@.contains_pair(*(#[trigger] it.seq()[j]).0, *it.seq()[j].1), //# - inner_bake_type.loop5.aux2
//@   endloop
//@ end
//@ fn sylt-compiler/src/typechecker.rs bake_type
//@   in TypeChecker
//@   props C07
//@   ret r
//@   spec
        requires old(self).inv2(), old(self).valid(a), //# C07 bake_type.pre.id_in_range
        ensures final(self).inv2(), final(self).grows(old(self)), //# C02,C07 bake_type.keeps_invariant
//@   endspec
//@   ghost entry
        broadcast use vstd::std_specs::hash::group_hash_axioms;
        proof { axiom_tyid_hash_key(); }
//@   endghost
//@ end
//@ fn sylt-compiler/src/typechecker.rs copy
//@   in TypeChecker
//@   props C02 C07
//@   ret r
//@   spec
        requires old(self).inv2(), old(self).valid(ty), //# C07 copy.pre.id_in_range
        ensures final(self).inv2(), final(self).grows(old(self)), final(self).valid(r), //# C02,C07 copy.keeps_invariant
            shape_eq(ty_of(old(self).types@, ty), ty_of(final(self).types@, r)), //# C02,C03,C05 copy.an_instance_has_the_shape_of_the_type_it_copies
//@   endspec
//@   ghost entry
        broadcast use vstd::std_specs::hash::group_hash_axioms;
        proof { axiom_tyid_hash_key(); }
//@   endghost
//@ end

//@ fn sylt-compiler/src/typechecker.rs expression
//@   in TypeChecker
//@   props C03 C04 C05 C07
//@   split 7 { return Err(opaque_errs(expression.span())); }
//@   attr #[verifier::exec_allows_no_decreases_clause]
//@   ret r
//@   rewrite equivalent
//@- let tys = branches
//@-     .iter()
//@-     .map(|branch| {
//@+ let mut tys = Vec::new();
//@+ for branch in branches.iter() {
//@   why Verus rejects closures capturing &mut self and Iterator::map/collect; collecting Results stops at the first Err and `?` returns it - the same as `?` inside a loop that pushes the Ok values in order
//@   endrewrite
//@   rewrite equivalent
//@- Ok((
//@-     span,
//@-     self.unify_option(*span, ctx, condition_ret, block_ret)?,
//@-     block_value,
//@- ))
//@- })
//@- .collect::<TypeResult<Vec<_>>>()?;
//@+ tys.push((
//@+     span,
//@+     self.unify_option(*span, ctx, condition_ret, block_ret)?,
//@+     block_value,
//@+ ));
//@+ }
//@   why second half of the rewrite above
//@   endrewrite
//@   rewrite equivalent count=2
//@- value.or(ret).unwrap_or_else(|| self.push_type(Type::Void)),
//@+ match value.or(ret) { Some(v) => v, None => self.push_type(Type::Void) },
//@   why closure capturing &mut self; unwrap_or_else calls the closure exactly when the option is None
//@   endrewrite
//@   rewrite equivalent
//@- if actual_ret.map(|x| self.is_void(x)).unwrap_or(true) && !ret.is_void() {
//@+ if (match actual_ret { Some(x) => self.is_void(x), None => true }) && !ret.is_void() {
//@   why closure capturing &mut self; Option::map + unwrap_or(true) is this match
//@   endrewrite
//@   rewrite equivalent
//@- let constraint = &branch.variable.map(|var| self.variables[var].ty);
//@+ let constraint = &(match branch.variable { Some(var) => Some(self.variables[var].ty), None => None });
//@   why closure capturing self; Option::map is this match
//@   endrewrite
//@   rewrite equivalent
//@- let given_fields: BTreeMap<_, _> = fields
//@-     .iter()
//@-     .map(|(key, expr)| {
//@-         Ok((key.clone(), (expr.span(), self.push_type(Type::Unknown))))
//@-     })
//@-     .collect::<TypeResult<_>>()?;
//@+ let mut given_fields: BTreeMap<String, (Span, TyID)> = BTreeMap::new();
//@+ for (key, expr) in fields.iter() {
//@+     given_fields.insert(key.clone(), (expr.span(), self.push_type(Type::Unknown)));
//@+ }
//@   why closure capturing &mut self + collect; collecting pairs into a BTreeMap inserts them in order (a later duplicate key overwrites), which is this loop; the closure never returns Err
//@   endrewrite
//@   rewrite equivalent
//@- let fields_and_types = given_fields
//@-     .iter()
//@-     .map(|(a, (s, x))| (a.clone(), (s.clone(), x.clone())))
//@-     .collect::<BTreeMap<_, _>>();
//@+ let fields_and_types = given_fields.clone();
//@   why map/collect of cloned pairs into a BTreeMap is a clone of the map
//@   endrewrite
//@   rewrite equivalent
//@- self.unify(expr.span(), ctx, expr_ty, fields_and_types[key].1)?;
//@+ self.unify(expr.span(), ctx, expr_ty, (match fields_and_types.get(key) { Some(v) => v.1, None => unreachable!() }))?;
//@   why vstd has no specification for Index on BTreeMap; map[key] is get(key) that panics when the key is absent - the panic is kept as the obligation unreachable!()
//@   endrewrite
//@   spec
        requires old(self).inv2(), //# C07 expression.spec.aux1
            e_ok(*expression, old(self).variables@.len() as int), //# C07 expression.pre.tree_is_well_formed
        ensures final(self).inv2(), final(self).grows(old(self)), //# C07 expression.spec.aux2
            r is Ok ==> final(self).valid(r->Ok_0.1) && (r->Ok_0.0 is Some ==> final(self).valid(r->Ok_0.0->Some_0)), //# C07 expression.result_ids_in_range
            r is Ok ==> e_brk(*expression, ctx.inside_loop), //# C05 expression.break_only_inside_a_loop_of_the_same_function
            r is Ok ==> e_pur(old(self).variables@, *expression, ctx.inside_pure), //# C04 expression.pure_functions_stay_pure_at_any_depth
            r is Ok ==> op_recorded(final(self).types@, *expression, r->Ok_0.1), //# C02,C03 expression.operators_record_their_constraint_on_both_operands
            r is Ok && lit_head(*expression) is Some ==> head(ty_of(final(self).types@, r->Ok_0.1)) == lit_head(*expression)->Some_0, //# C03 expression.a_literal_has_the_type_of_its_kind
            lit_clash(*expression) ==> r is Err, //# C03,C05 expression.construct_on_literals_of_a_type_it_does_not_accept_is_rejected
            r is Ok ==> case_recorded(final(self).types@, *expression, old(self).variables@), //# C05 expression.case_requires_an_enum_with_every_arm_and_exactly_the_arms_without_else
            r is Ok ==> blob_instance_ok(old(self).types@, old(self).variables@, *expression), //# C05 expression.an_accepted_blob_instance_names_exactly_the_fields_of_the_blob
            decl_clash(old(self).types@, old(self).variables@, *expression) ==> r is Err, //# C05 expression.unknown_variant_and_instance_of_a_non_blob_or_externblob_are_rejected
            r is Ok && *expression is Read ==> shape_eq(ty_of(old(self).types@, old(self).variables@[expression->Read_var as int].ty), ty_of(final(self).types@, r->Ok_0.1)), //# C03,C05 expression.reading_a_variable_gives_its_type_or_an_instance_of_it
            read_clash(old(self).types@, old(self).variables@, *expression) ==> r is Err, //# C03,C05 expression.a_use_that_contradicts_the_known_type_of_a_variable_is_rejected
            r is Err ==> r->Err_0.len() >= 1, //# C07 expression.an_error_result_is_never_an_empty_list
//@   endspec
//@   ghost entry
        hide(wf_forest); hide(ids_closed); hide(TypeChecker::vars_valid);
        hide(e_below); hide(e_nodecl); hide(e_shape); hide(s_below); hide(s_nodecl); hide(s_shape);
        hide(ib_below); hide(ib_nodecl); hide(ib_shape); hide(cb_below); hide(cb_nodecl); hide(cb_shape);
        hide(e_brk); hide(e_pur); hide(s_brk); hide(s_pur); hide(ib_brk); hide(ib_pur); hide(cb_brk); hide(cb_pur); hide(merges_only);
        let ghost n = self.variables@.len() as int; let ghost vs = self.variables@; let ghost il = ctx.inside_loop; let ghost ip = ctx.inside_pure;
        proof { axiom_string_key_order(); lemma_e_ok_children(*expression, n); lemma_heads_refl(self.types@); }
//@   endghost
//@   ghost before
//@| match self.find_type(expr) {
        proof { lemma_e_str_intro(vs, *expression, il, ip); } //# C04,C05 expression.children_obey_purity_and_loop_rules
//@   endghost
//@   ghost before-loop 1
                        let ghost n1 = self.types@.len();
//@   endghost
//@   loop 1 binder it
                            invariant
                                self.inv2(), self.grows(old(self)), n == self.variables@.len(), vs == self.variables@, il == ctx.inside_loop, ip == ctx.inside_pure, self.types@.len() >= n1, //# C04,C05 expression.loop1.aux1
                                ret is Some ==> self.valid(ret->Some_0), self.valid(ret_ty), //# C07 expression.loop1.aux2
                                args@.len() == params@.len(), //# C03 expression.loop1.a_call_passes_as_many_arguments_as_the_function_has_parameters
                                it.seq().len() == args@.len(), //# - expression.loop1.aux3
                                forall|k: int| 0 <= k < args@.len() ==> *(#[trigger] it.seq()[k]).0 == args@[k] && *it.seq()[k].1 == params@[k], //# - expression.loop1.aux4
                                forall|k: int| 0 <= k < params@.len() ==> ((#[trigger] params@[k]).0 as int) < n1, //# C07 expression.loop1.aux5
                                forall|k: int| 0 <= k < args@.len() ==> e_ok(#[trigger] args@[k], n), //# C07 expression.loop1.aux6
                                forall|k: int| 0 <= k < it.index@ ==> e_both(vs, #[trigger] args@[k], il, ip), //# C04,C05 expression.loop1.arguments_checked
//@   endloop
//@   loop 2 binder it
                    invariant
                        self.inv2(), self.grows(old(self)), n == self.variables@.len(), vs == self.variables@, il == ctx.inside_loop, ip == ctx.inside_pure, //# C04,C05 expression.loop2.aux1
                        it.seq().len() == branches@.len(), //# - expression.loop2.aux2
                        forall|k: int| 0 <= k < branches@.len() ==> *(#[trigger] it.seq()[k]) == branches@[k], //# - expression.loop2.aux3
                        forall|k: int| 0 <= k < branches@.len() ==> ib_ok(#[trigger] branches@[k], n), //# C07 expression.loop2.aux4
                        tys_valid(tys@, self.types@.len() as int), //# C07 expression.loop2.aux5
                        forall|k: int| 0 <= k < it.index@ ==> ib_str(vs, #[trigger] branches@[k], il, ip), //# C04,C05 expression.loop2.branches_checked
                        forall|k: int| 0 <= k < it.index@ ==> !cond_clash(#[trigger] branches@[k]), //# C03 expression.loop2.no_literal_condition_so_far_is_a_non_bool
//@   endloop
//@   ghost before-loop 3
                    let ghost n3r = self.types@.len();
//@   endghost
//@   loop 3 binder itr
                    invariant
                        self.inv2(), self.grows(old(self)), n == self.variables@.len(), vs == self.variables@, il == ctx.inside_loop, ip == ctx.inside_pure, self.types@.len() >= n3r, //# C04,C05 expression.loop3.aux1
                        tys_valid(tys@, n3r as int), itr.seq().len() == tys@.len(), //# - expression.loop3.aux2
                        forall|k: int| 0 <= k < tys@.len() ==> *(#[trigger] itr.seq()[k]) == tys@[k], //# - expression.loop3.aux3
                        ret is Some ==> self.valid(ret->Some_0), //# C07 expression.loop3.aux4
                        rets_joined(self.types@, tys@, itr.index@ as int, ret), //# C02,C03 expression.loop3.the_returns_of_the_branches_so_far_are_in_the_class_of_the_type_the_if_returns
//@   endloop
//@   ghost loop-body 3
                        let ghost ts_rb = self.types@; let ghost ret_rb = ret;
                        proof { lemma_merges_refl(ts_rb); }
//@   endghost
//@   ghost loop-end 3
                        proof { lemma_merges_refl(self.types@); lemma_rets_step(ts_rb, self.types@, self.types@, tys@, itr.index@ as int, ret_rb, ret); } //# C02,C03 expression.loop3.the_return_of_this_branch_is_joined_with_the_returns_so_far
//@   endghost
//@   ghost after-loop 3
                    let ghost ts_rl = self.types@;
                    proof { lemma_merges_refl(ts_rl); }
//@   endghost
//@   ghost after
//@| let void = self.push_type(Type::Void);
                    proof { lemma_rets_mono(ts_rl, self.types@, tys@, tys@.len() as int, ret); }
//@   endghost
//@   ghost before-loop 4
                        let ghost n3 = self.types@.len();
//@   endghost
//@   loop 4 binder it
                        invariant
                            self.inv2(), self.grows(old(self)), n == self.variables@.len(), vs == self.variables@, il == ctx.inside_loop, ip == ctx.inside_pure, self.types@.len() >= n3, //# C04,C05 expression.loop4.aux1
                            tys_valid(tys@, n3 as int), it.seq().len() == tys@.len(), //# - expression.loop4.aux2
                            forall|k: int| 0 <= k < tys@.len() ==> *(#[trigger] it.seq()[k]) == tys@[k], //# - expression.loop4.aux3
                            ret is Some ==> self.valid(ret->Some_0), value is Some ==> self.valid(value->Some_0), //# C07 expression.loop4.aux4
                            rets_joined(self.types@, tys@, it.index@ as int, ret), //# C02,C03 expression.loop4.the_returns_of_the_branches_so_far_are_in_the_class_of_the_type_the_if_returns
//@   endloop
//@   ghost loop-body 4
                        let ghost ts_b = self.types@; let ghost ret_b = ret;
                        proof { lemma_merges_refl(ts_b); }
//@   endghost
//@   ghost before
//@| value = self
                        let ghost ts_1 = self.types@;
                        proof { lemma_merges_refl(ts_1); }
//@   endghost
//@   ghost loop-end 4
                        proof { lemma_rets_step(ts_b, ts_1, self.types@, tys@, it.index@ as int, ret_b, ret); } //# C02,C03 expression.loop4.the_return_of_this_branch_is_joined_with_the_returns_so_far
//@   endghost
//@   loop 5 binder it
                    invariant
                        self.inv2(), self.grows(old(self)), n == self.variables@.len(), vs == self.variables@, il == ctx.inside_loop, ip == ctx.inside_pure, self.valid(to_match), //# C04,C05 expression.loop5.aux1
                        vstd::std_specs::btree::key_obeys_cmp_spec::<String>(), //# C07 expression.loop5.aux2
                        it.seq().len() == branches@.len(), //# - expression.loop5.aux3
                        forall|k: int| 0 <= k < branches@.len() ==> *(#[trigger] it.seq()[k]) == branches@[k], //# - expression.loop5.aux4
                        forall|k: int| 0 <= k < branches@.len() ==> cb_ok(#[trigger] branches@[k], n), //# C07 expression.loop5.aux5
                        ret is Some ==> self.valid(ret->Some_0), value is Some ==> self.valid(value->Some_0), //# C07 expression.loop5.aux6
                        forall|k: int| 0 <= k < it.index@ ==> cb_str(vs, #[trigger] branches@[k], il, ip), //# C04,C05 expression.loop5.arms_checked
                        cons_of(self.types@, to_match.0 as int).contains(Constraint::Enum), //# C05 expression.loop5.matched_value_must_be_an_enum
                        forall|k: int| 0 <= k < it.index@ ==> cons_of(self.types@, to_match.0 as int).contains(variant_con(#[trigger] branches@[k], vs)), //# C05 expression.loop5.every_arm_so_far_requires_its_variant
                        arm_names(branch_names@, branches@, it.index@ as int), //# C05 expression.loop5.names_collected_are_the_arms_so_far
//@   endloop
//@   ghost loop-body 5
                proof { if branch.variable is Some { lemma_var_valid(self, branch.variable->Some_0 as int); } }
                let ghost sb = self.types@; proof { lemma_cons_refl(sb); }
//@   endghost
//@   ghost after-loop 5
                let ghost sl = self.types@; proof { lemma_cons_refl(sl); }
//@   endghost
//@   ghost before-loop 6
                let ghost n5 = self.types@.len(); let ghost t5 = self.types@; proof { lemma_heads_refl(t5); }
                #[verifier::loop_isolation(false)]
//@   endghost
//@   loop 6 binder it
                    invariant
                        self.inv2(), self.grows(old(self)), n == self.variables@.len(), vs == self.variables@, il == ctx.inside_loop, ip == ctx.inside_pure, self.valid(blob_ty), self.types@.len() >= n5, //# C04,C05 expression.loop6.aux1
                        vstd::std_specs::btree::key_obeys_cmp_spec::<String>(), //# C07 expression.loop6.aux2
                        it.seq().len() == fields@.len(), //# - expression.loop6.aux3
                        forall|k: int| 0 <= k < fields@.len() ==> *(#[trigger] it.seq()[k]) == fields@[k], //# - expression.loop6.aux4
                        fields_in_range(given_fields, self.types@.len() as int), //# C07 expression.loop6.aux5
                        forall|k: int| 0 <= k < it.index@ ==> given_fields@.dom().contains((#[trigger] fields@[k]).0), //# C07 expression.loop6.every_given_field_gets_a_type
                        forall|name: String| #[trigger] given_fields@.dom().contains(name) ==> given_name(fields@, name), //# C05 expression.loop6.only_given_fields_get_a_type
                        heads_kept(t5, self.types@), //# C05 expression.loop6.aux6
//@   endloop
//@   ghost before-loop 7
                #[verifier::loop_isolation(false)]
//@   endghost
//@   loop 7
                    invariant vstd::std_specs::btree::key_obeys_cmp_spec::<String>(), //# C07 expression.loop7.aux1
//@   endloop
//@   ghost before-loop 8
                #[verifier::loop_isolation(false)]
//@   endghost
//@   loop 8
                    invariant vstd::std_specs::btree::key_obeys_cmp_spec::<String>(), //# C07 expression.loop8.aux1
//@   endloop
//@   ghost before-loop 9
                let ghost n8 = self.types@.len(); let ghost t8 = self.types@; proof { lemma_heads_refl(t8); }
                #[verifier::loop_isolation(false)]
//@   endghost
//@   loop 9 binder it
                    invariant
                        self.inv2(), self.grows(old(self)), n == self.variables@.len(), vs == self.variables@, il == ctx.inside_loop, ip == ctx.inside_pure, self.types@.len() >= n8, //# C04,C05 expression.loop9.aux1
                        vstd::std_specs::btree::key_obeys_cmp_spec::<String>(), //# C07 expression.loop9.aux2
                        self.valid(given_blob), self.valid(blob_ty), ret is Some ==> self.valid(ret->Some_0), //# C07 expression.loop9.aux3
                        it.seq().len() == fields@.len(), //# - expression.loop9.aux4
                        forall|k: int| 0 <= k < fields@.len() ==> *(#[trigger] it.seq()[k]) == fields@[k], //# - expression.loop9.aux5
                        forall|k: int| 0 <= k < fields@.len() ==> e_ok((#[trigger] fields@[k]).1, n), //# C07 expression.loop9.aux6
                        fields_in_range(fields_and_types, n8 as int), //# C07 expression.loop9.aux7
                        forall|k: int| 0 <= k < fields@.len() ==> fields_and_types@.dom().contains((#[trigger] fields@[k]).0), //# C07 expression.loop9.aux8
                        forall|k: int| 0 <= k < it.index@ ==> e_both(vs, (#[trigger] fields@[k]).1, il, ip), //# C04,C05 expression.loop9.fields_checked
                        heads_kept(t8, self.types@), //# C05 expression.loop9.aux9
//@   endloop
//@   loop 10 binder it
                    invariant
                        self.inv2(), self.grows(old(self)), n == self.variables@.len(), vs == self.variables@, il == ctx.inside_loop, ip == ctx.inside_pure, ret is Some ==> self.valid(ret->Some_0), //# C04,C05 expression.loop10.aux1
                        it.seq().len() == values@.len(), //# - expression.loop10.aux2
                        forall|k: int| 0 <= k < values@.len() ==> *(#[trigger] it.seq()[k]) == values@[k], //# - expression.loop10.aux3
                        forall|k: int| 0 <= k < values@.len() ==> e_ok(#[trigger] values@[k], n), //# C07 expression.loop10.aux4
                        forall|k: int| 0 <= k < tys@.len() ==> self.valid(#[trigger] tys@[k]), //# C07 expression.loop10.aux5
                        forall|k: int| 0 <= k < it.index@ ==> e_both(vs, #[trigger] values@[k], il, ip), //# C04,C05 expression.loop10.members_checked
//@   endloop
//@   loop 11 binder it
                    invariant
                        self.inv2(), self.grows(old(self)), n == self.variables@.len(), vs == self.variables@, il == ctx.inside_loop, ip == ctx.inside_pure, ret is Some ==> self.valid(ret->Some_0), self.valid(inner_ty), //# C04,C05 expression.loop11.aux1
                        it.seq().len() == values@.len(), //# - expression.loop11.aux2
                        forall|k: int| 0 <= k < values@.len() ==> *(#[trigger] it.seq()[k]) == values@[k], //# - expression.loop11.aux3
                        forall|k: int| 0 <= k < values@.len() ==> e_ok(#[trigger] values@[k], n), //# C07 expression.loop11.aux4
                        forall|k: int| 0 <= k < it.index@ ==> e_both(vs, #[trigger] values@[k], il, ip), //# C04,C05 expression.loop11.elements_checked
                        forall|k: int| 0 <= k < it.index@ && lit_head(#[trigger] values@[k]) is Some ==> head(ty_of(self.types@, inner_ty)) == lit_head(values@[k])->Some_0, //# C03 expression.loop11.the_element_type_is_the_type_of_every_literal_so_far
//@   endloop
//@   ghost before
//@| let mut ret = ret;
//@| for (a, p) in args.iter().zip(params.iter()) {
                        assert(ctx.inside_pure ==> purity is Pure); //# C04 expression.a_call_inside_a_pure_function_is_only_checked_further_if_the_callee_is_known_to_be_pure
//@   endghost
//@   ghost after
//@| let (actual_ret, implicit_ret) = self.expression_block(*span, body, ctx)?;
                let ghost blk_ret = actual_ret;
                let ghost blk_val = implicit_ret;
//@   endghost
//@   ghost before 1
//@| with_ret(
                // what the code inside an `if` returns is what the `if` hands on: with or without an `else`
                assert(rets_joined(self.types@, tys@, tys@.len() as int, ret)); //# C02,C03 expression.every_return_inside_an_if_is_in_the_class_of_the_type_the_if_returns
//@   endghost
//@   ghost before 1
//@| self.unify_option(*span, ctx, Some(ret_ty), actual_ret)
                let ghost ts_r1 = self.types@;
                proof { lemma_merges_refl(ts_r1); }
//@   endghost
//@   ghost before 2
//@| self.unify_option(*span, ctx, Some(ret_ty), actual_ret)
                let ghost ts_r2 = self.types@;
                proof { lemma_merges_refl(ts_r2); }
//@   endghost
//@   ghost before
//@| no_ret(f_ty)
                // every value an accepted function literal returns - by `ret` or as the value of its body -
                // has the declared return type (is in its class); a function declared void returns void
                proof { if blk_ret is Some { lemma_merges_use(ts_r1, self.types@, blk_ret->Some_0.0 as int, actual_ret->Some_0.0 as int); } }
                assert(blk_ret is Some ==> rep0(self.types@, blk_ret->Some_0.0 as int) == rep0(self.types@, ret_ty.0 as int)); //# C03 expression.every_explicit_return_of_an_accepted_function_has_the_declared_return_type
                proof { if blk_val is Some && !(*ret is Resolved && ret->Resolved_0 is Void) { lemma_merges_use(ts_r1, self.types@, blk_val->Some_0.0 as int, actual_ret->Some_0.0 as int); } }
                assert(blk_val is Some && !(*ret is Resolved && ret->Resolved_0 is Void) ==> rep0(self.types@, blk_val->Some_0.0 as int) == rep0(self.types@, ret_ty.0 as int)); //# C03 expression.the_value_of_the_body_of_an_accepted_function_has_the_declared_return_type
//@   endghost
//@   ghost before
//@| self.unify(span, ctx, *p, a)?;
                            let ghost ts_a = self.types@;
                            let ghost t_a = ty_of(ts_a, a);
                            proof { lemma_heads_refl(ts_a); assert(t_a == cty(ts_a, a.0 as int)); }
//@   endghost
//@   ghost loop-end 1
                            // (Constraint::Variable is recorded on the argument and checked while the known type is
                            // still the one the argument had: known types keep their constructor)
                            assert(!(t_a is Void)); //# C03 expression.an_argument_whose_type_is_known_to_be_void_is_rejected
//@   endghost
//@   ghost before
//@| let var = &self.variables[*var];
                proof { lemma_var_valid(self, *var as int); }
//@   endghost
//@   ghost before
//@| let enum_ty = self.copy(self.variables[*ty].ty);
                proof { lemma_var_valid(self, *ty as int); lemma_var_valid(&*old(self), *ty as int); }
//@   endghost
//@   ghost before
//@| let blob_ty = self.copy(self.variables[*blob].ty);
                proof { lemma_var_valid(self, *blob as int); }
//@   endghost
//@ end

//@ fn sylt-compiler/src/typechecker.rs outer_statement
//@   in TypeChecker
//@   props C02 C07
//@   attr #[verifier::loop_isolation(false)]
//@   ret r
//@   rewrite rule:D-timed
//@- let _handle =
//@-     sylt_macro::timed_handle!("typecheck::outer_statement", line = span.line_start);
//@+ let _handle = ();
//@   why profiling handle, compiled to () without the `timed` feature
//@   endrewrite
//@   spec
        requires old(self).inv2(), //# C07 outer_statement.pre.inv
            os_ok(*statement, old(self).variables@.len() as int), //# C07 outer_statement.pre.top_level_statement_is_a_declaration_or_definition
        ensures final(self).inv2(), final(self).grows(old(self)), //# C02,C07 outer_statement.keeps_invariant
            r is Err ==> r->Err_0.len() >= 1, //# C07 outer_statement.an_error_result_is_never_an_empty_list
//@   endspec
//@   ghost entry
        broadcast use vstd::std_specs::hash::group_hash_axioms;
        proof { axiom_string_key_order(); axiom_string_hash_key(); }
//@   endghost
//@   loop 1
                    invariant self.inv2(), self.grows(old(self)), sn_ok(seen@, self.types@.len() as int), //# C02,C07 outer_statement.loop1.aux1
                        ids_below(type_params@, self.types@.len() as int), //# C07 outer_statement.loop1.aux2
//@   endloop
//@   loop 2 binder it
                    invariant self.inv2(), self.grows(old(self)), //# C02,C07 outer_statement.loop2.aux1
                        ids_below(type_params@, self.types@.len() as int), //# C07 outer_statement.loop2.aux2
                        fields_in_range(resolved_variants, self.types@.len() as int), sn_ok(seen@, self.types@.len() as int), //# C07 outer_statement.loop2.aux3
                        forall|j: int| 0 <= j < it.seq().len() ==> variants@.contains_pair(*(#[trigger] it.seq()[j]).0, *it.seq()[j].1), //# - outer_statement.loop2.aux5
                        vstd::std_specs::btree::key_obeys_cmp_spec::<String>(), //# C07 outer_statement.loop2.aux4
//@   endloop
//@   loop 3
                    invariant self.inv2(), self.grows(old(self)), sn_ok(seen@, self.types@.len() as int), //# C02,C07 outer_statement.loop3.aux1
                        ids_below(type_params@, self.types@.len() as int), //# C07 outer_statement.loop3.aux2
//@   endloop
//@   loop 4 binder it
                    invariant self.inv2(), self.grows(old(self)), //# C02,C07 outer_statement.loop4.aux1
                        ids_below(type_params@, self.types@.len() as int), //# C07 outer_statement.loop4.aux2
                        fields_in_range(resolved_fields, self.types@.len() as int), sn_ok(seen@, self.types@.len() as int), //# C07 outer_statement.loop4.aux3
                        forall|j: int| 0 <= j < it.seq().len() ==> fields@.contains_pair(*(#[trigger] it.seq()[j]).0, *it.seq()[j].1), //# - outer_statement.loop4.aux5
                        vstd::std_specs::btree::key_obeys_cmp_spec::<String>(), //# C07 outer_statement.loop4.aux4
//@   endloop
//@ end

//@ fn sylt-compiler/src/typechecker.rs solve
//@   in TypeChecker
//@   props C05 C07
//@   ret r
//@   rewrite equivalent
//@- self.unify(var.definition, ctx, ty, start)
//@-     .map(|_| ())
//@-     .or_else(|_| {
//@-         err_type_error!(
//@-             self,
//@-             var.definition,
//@-             TypeError::Mismatch {
//@-                 got: self.bake_type(ty),
//@-                 expected: self.bake_type(start),
//@-             },
//@-             "The start function has the wrong type"
//@-         )
//@-     })
//@+ match self.unify(var.definition, ctx, ty, start) {
//@+     Ok(_) => Ok(()),
//@+     Err(_) => err_type_error!(
//@+         self,
//@+         var.definition,
//@+         TypeError::Mismatch {
//@+             got: self.bake_type(ty),
//@+             expected: self.bake_type(start),
//@+         },
//@+         "The start function has the wrong type"
//@+     ),
//@+ }
//@   why closure capturing &mut self; Result::map + or_else is this match
//@   endrewrite
//@   spec
        requires old(self).inv2(), //# C07 solve.spec.aux1
            forall|i: int| 0 <= i < statements@.len() ==> os_ok(#[trigger] statements@[i], old(self).variables@.len() as int), //# C07 solve.pre.top_level_statements_are_declarations_or_definitions
            start_var is Some ==> (start_var->Some_0.id as int) < old(self).variables@.len(), //# C07 solve.pre.start_id_in_range
        ensures
            start_var is None ==> r is Err, //# C05,C07 solve.program_without_start_is_rejected
            r is Err ==> r->Err_0.len() >= 1, //# C07 solve.an_error_result_is_never_an_empty_list
//@   endspec
//@   loop 1 binder it
            invariant self.inv2(), self.grows(old(self)), //# C07 solve.loop1.aux1
                it.seq().len() == statements@.len(), //# - solve.loop1.aux2
                forall|k: int| 0 <= k < statements@.len() ==> *(#[trigger] it.seq()[k]) == statements@[k], //# - solve.loop1.aux3
                forall|i: int| 0 <= i < statements@.len() ==> os_ok(#[trigger] statements@[i], self.variables@.len() as int), //# C07 solve.loop1.aux4
//@   endloop
//@   ghost before
//@| let ty = self.variables[var.id].ty;
                proof { lemma_var_valid(self, var.id as int); }
//@   endghost
//@ end

//@ fn sylt-compiler/src/typechecker.rs resolve_type
//@   in TypeChecker
//@   props C02 C07
//@   ret r
//@   spec
        requires old(self).inv2(), //# C07 resolve_type.pre.inv
            rt_ok(*ty, old(self).variables@.len() as int), //# C07 resolve_type.pre.type_is_translatable
        ensures final(self).inv2(), final(self).grows(old(self)), r is Ok ==> final(self).valid(r->Ok_0), //# C02,C07 resolve_type.keeps_invariant
            r is Ok && prim_head(*ty) is Some ==> head(ty_of(final(self).types@, r->Ok_0)) == prim_head(*ty)->Some_0, //# C03 resolve_type.a_primitive_type_annotation_gives_that_type
            r is Err ==> r->Err_0.len() >= 1, //# C07 resolve_type.an_error_result_is_never_an_empty_list
//@   endspec
//@   ghost entry
        broadcast use vstd::std_specs::hash::group_hash_axioms;
        proof { axiom_string_hash_key(); }
//@   endghost
//@ end
//@ fn sylt-compiler/src/typechecker.rs resolve_constraint
//@   in TypeChecker
//@   props C02 C07
//@   ret r
//@   rewrite equivalent
//@- match constraint.name.name.as_str() {
//@-     "Num" => {
//@+ let cname = &constraint.name.name;
//@+ if *cname == *"Num" {
//@+     {
//@   why Verus has no string patterns: a match on a &str against string literals, in order, with a binding catch-all is this if / else-if chain (the catch-all arm only uses its binding in the error message, which D-msg drops)
//@   endrewrite
//@   rewrite equivalent
//@-     "CmpEqu" => {
//@+     } else if *cname == *"CmpEqu" {
//@+     {
//@   why second arm of the rewrite above
//@   endrewrite
//@   rewrite equivalent
//@-     x => return err_type_error!(self, span, TypeError::UnknownConstraint(x.into())),
//@- }
//@+     } else { return err_type_error!(self, span, TypeError::UnknownConstraint(cname.into())); }
//@   why catch-all arm of the rewrite above
//@   endrewrite
//@   inner check_constraint_arity
//@     ret r
//@     spec
        ensures r is Err ==> r->Err_0.len() >= 1, //# C07 check_constraint_arity.an_error_result_is_never_an_empty_list
//@     endspec
//@   endinner
//@   spec
        requires old(self).inv2(), old(self).valid(var), //# C07 resolve_constraint.pre.id_in_range
        ensures final(self).inv2(), final(self).grows(old(self)), //# C02,C07 resolve_constraint.keeps_invariant
            r is Err ==> r->Err_0.len() >= 1, //# C07 resolve_constraint.an_error_result_is_never_an_empty_list
//@   endspec
//@ end
//@ fn sylt-compiler/src/typechecker.rs inner_resolve_type
//@   in TypeChecker
//@   props C02 C03 C07
//@   attr #[verifier::exec_allows_no_decreases_clause]
//@   attr #[verifier::loop_isolation(false)]
//@   ret r
//@   rewrite equivalent
//@- for (i, var) in vars.iter().enumerate() {
//@+ let mut i: usize = 0; for var in vars.iter() {
//@   why Verus has no specification for Iterator::enumerate: a counter that starts at 0 and is incremented at the end of every iteration (second half below) is the index enumerate yields; every early exit of the body leaves the function
//@   endrewrite
//@   rewrite equivalent
//@- self.unify(span, ctx, var_ty, sub[i])?;
//@+ self.unify(span, ctx, var_ty, sub[i])?; i += 1;
//@   why second half of the rewrite above
//@   endrewrite
//@   rewrite equivalent
//@- let params = params
//@-     .iter()
//@-     .map(|t| self.inner_resolve_type(ctx, t, seen))
//@-     .collect::<TypeResult<Vec<_>>>()?;
//@+ let mut resolved_params: Vec<TyID> = Vec::new();
//@+ for t in params.iter() { resolved_params.push(self.inner_resolve_type(ctx, t, seen)?); }
//@+ let params = resolved_params;
//@   why closure capturing &mut self + collect; collecting Results stops at the first Err and `?` returns it - the same as `?` inside a loop that pushes the Ok values in order
//@   endrewrite
//@   rewrite equivalent
//@- T::Tuple(fields, _) => Type::Tuple(
//@-     fields
//@-         .iter()
//@-         .map(|t| self.inner_resolve_type(ctx, t, seen))
//@-         .collect::<TypeResult<Vec<_>>>()?,
//@- ),
//@+ T::Tuple(fields, _) => Type::Tuple({ let mut resolved_fields: Vec<TyID> = Vec::new();
//@+ for t in fields.iter() { resolved_fields.push(self.inner_resolve_type(ctx, t, seen)?); }
//@+ resolved_fields }),
//@   why as above
//@   endrewrite
//@   rewrite equivalent
//@- let purity = is_pure.then(|| Purity::Pure).unwrap_or(Purity::Undefined);
//@+ let purity = if *is_pure { Purity::Pure } else { Purity::Undefined };
//@   why bool::then + unwrap_or is this if
//@   endrewrite
//@   rewrite equivalent
//@- return Ok(*seen
//@-     .entry(name.clone())
//@-     .or_insert_with(|| self.push_type(Type::Unknown)))
//@+ return Ok(match seen.get(name) { Some(known) => *known, None => { let fresh = self.push_type(Type::Unknown); seen.insert(name.clone(), fresh); fresh } })
//@   why closure capturing &mut self; entry(k).or_insert_with(f) returns the value stored under k, inserting f() first exactly when k is absent
//@   endrewrite
//@   spec
        requires old(self).inv2(), //# C07 inner_resolve_type.pre.inv
            rt_ok(*ty, old(self).variables@.len() as int), //# C07 inner_resolve_type.pre.type_is_translatable
            sn_ok(old(seen)@, old(self).types@.len() as int), //# C07 inner_resolve_type.pre.generics_so_far_are_nodes
            vstd::std_specs::hash::obeys_key_model::<String>(), //# C07 inner_resolve_type.pre.key_model
        ensures final(self).inv2(), final(self).grows(old(self)), r is Ok ==> final(self).valid(r->Ok_0), //# C02,C07 inner_resolve_type.keeps_invariant
            sn_ok(final(seen)@, final(self).types@.len() as int), //# C07 inner_resolve_type.generics_are_nodes
            r is Ok && prim_head(*ty) is Some ==> head(ty_of(final(self).types@, r->Ok_0)) == prim_head(*ty)->Some_0, //# C03 inner_resolve_type.a_primitive_type_annotation_gives_that_type
            sn_ext(old(seen)@, final(seen)@), //# C03 inner_resolve_type.a_type_variable_keeps_the_node_it_was_given
            r is Ok && *ty is Generic ==> final(seen)@.contains_key(ty->Generic_0) && final(seen)@[ty->Generic_0] == r->Ok_0, //# C03 inner_resolve_type.a_type_variable_resolves_to_the_node_recorded_under_its_name
            r is Err ==> r->Err_0.len() >= 1, //# C07 inner_resolve_type.an_error_result_is_never_an_empty_list
//@   endspec
//@   ghost entry
        let ghost n = self.variables@.len() as int;
        broadcast use vstd::std_specs::hash::group_hash_axioms;
        proof { reveal_with_fuel(rt_ok, 2); }
//@   endghost
//@   loop 1 binder it
            invariant self.inv2(), self.grows(old(self)), sn_ok(seen@, self.types@.len() as int), sn_ext(old(seen)@, seen@), n == self.variables@.len(), self.valid(ty), //# C02,C07 inner_resolve_type.loop1.aux1
                ids_below(sub@, self.types@.len() as int), i == it.index@, i <= sub@.len(), //# C07 inner_resolve_type.loop1.aux2
                it.seq().len() == vars@.len(), forall|k: int| 0 <= k < vars@.len() ==> *(#[trigger] it.seq()[k]) == vars@[k], //# - inner_resolve_type.loop1.aux3
//@   endloop
//@   loop 2 binder it
            invariant self.inv2(), self.grows(old(self)), sn_ok(seen@, self.types@.len() as int), sn_ext(old(seen)@, seen@), n == self.variables@.len(), //# C02,C07 inner_resolve_type.loop2.aux1
                ids_below(resolved_params@, self.types@.len() as int), //# C07 inner_resolve_type.loop2.aux2
                it.seq().len() == params@.len(), forall|k: int| 0 <= k < params@.len() ==> *(#[trigger] it.seq()[k]) == params@[k], //# - inner_resolve_type.loop2.aux3
//@   endloop
//@   loop 3
            invariant self.inv2(), self.grows(old(self)), sn_ok(seen@, self.types@.len() as int), sn_ext(old(seen)@, seen@), n == self.variables@.len(), //# C02,C07 inner_resolve_type.loop3.aux1
                ids_below(params@, self.types@.len() as int), self.valid(ret), //# C07 inner_resolve_type.loop3.aux2
//@   endloop
//@   loop 4
            invariant self.inv2(), self.grows(old(self)), sn_ok(seen@, self.types@.len() as int), sn_ext(old(seen)@, seen@), n == self.variables@.len(), //# C02,C07 inner_resolve_type.loop4.aux1
                ids_below(params@, self.types@.len() as int), self.valid(ret), self.valid(*var), //# C07 inner_resolve_type.loop4.aux2
//@   endloop
//@   loop 5 binder it
            invariant self.inv2(), self.grows(old(self)), sn_ok(seen@, self.types@.len() as int), sn_ext(old(seen)@, seen@), n == self.variables@.len(), //# C02,C07 inner_resolve_type.loop5.aux1
                ids_below(resolved_fields@, self.types@.len() as int), //# C07 inner_resolve_type.loop5.aux2
                it.seq().len() == fields@.len(), forall|k: int| 0 <= k < fields@.len() ==> *(#[trigger] it.seq()[k]) == fields@[k], //# - inner_resolve_type.loop5.aux3
//@   endloop
//@ end
//@ fn sylt-compiler/src/typechecker.rs add_constraint
//@   in TypeChecker
//@   props C02 C07
//@   rewrite equivalent
//@- self.find_node_mut(a)
//@-     .constraints
//@-     .entry(constraint)
//@-     .or_insert_with(|| span);
//@+ let node = self.find_node_mut(a);
//@+ if !node.constraints.contains_key(&constraint) {
//@+     node.constraints.insert(constraint, span);
//@+ }
//@   why vstd has no specification for BTreeMap::entry; entry(k).or_insert_with(f) inserts f() exactly when k is absent and leaves the map alone otherwise
//@   endrewrite
//@   spec
        requires old(self).inv2(), old(self).valid(a), //# C07 add_constraint.pre.id_in_range
            con_in_range(constraint, old(self).types@.len() as int), //# C02,C07 add_constraint.pre.constraint_ids_in_range
        ensures final(self).inv2(), final(self).grows(old(self)), //# C02 add_constraint.keeps_invariant
            same_partition_and_types(old(self).types@, final(self).types@), //# C02 add_constraint.only_constraints_change
            cons_of(final(self).types@, a.0 as int) == cons_of(old(self).types@, a.0 as int).insert(constraint), //# C02,C03,C05 add_constraint.records_the_constraint_on_the_class
            cons_of(final(self).types@, a.0 as int).contains(constraint) && cons_mono(final(self).types@, final(self).types@), // (the seed terms of the no-constraint-dropped chain for what was just recorded)
            forall|i: int| 0 <= i < old(self).types@.len() && rep0(old(self).types@, i) != rep0(old(self).types@, a.0 as int)
                ==> #[trigger] cons_of(final(self).types@, i) == cons_of(old(self).types@, i), //# C02 add_constraint.other_classes_untouched
//@   endspec
//@   ghost entry
        let ghost ts0 = self.types@;
        proof { axiom_constraint_key_order(); lemma_rep0_props(ts0, a.0 as int); }
//@   endghost
//@   ghost after
//@| if !node.constraints.contains_key(&constraint) {
//@| node.constraints.insert(constraint, span);
//@| }
        proof {
            let tsf = self.types@;
            assert forall|i: int| 0 <= i < ts0.len() && rep0(ts0, i) != rep0(ts0, a.0 as int)
                implies #[trigger] cons_of(tsf, i) == cons_of(ts0, i) by {
                lemma_rep0_props(ts0, i);
                assert(rep0(tsf, i) == rep0(ts0, i));
                assert(tsf[rep0(ts0, i)].constraints == ts0[rep0(ts0, i)].constraints);
            }
            assert(merges_only(ts0, tsf)) by {
                assert forall|i: int, j: int| 0 <= i < ts0.len() && 0 <= j < ts0.len() && rep0(ts0, i) == rep0(ts0, j) implies #[trigger] rep0(tsf, i) == #[trigger] rep0(tsf, j) by {
                    assert(rep0(tsf, i) == rep0(ts0, i)); assert(rep0(tsf, j) == rep0(ts0, j));
                }
            }
            lemma_merges_from(ts0, tsf);
        }
//@   endghost
//@ end
//@ fn sylt-compiler/src/typechecker.rs div_res
//@   in TypeChecker
//@   props C02 C03 C07
//@   attr #[verifier::exec_allows_no_decreases_clause]
//@   attr #[verifier::loop_isolation(false)]
//@   ret r
//@   rewrite guard
//@- (Type::Tuple(a), Type::Tuple(b)) if a.len() == b.len() => {
//@   endrewrite
//@   rewrite equivalent
//@- let tys = xs.iter().map(|_| self.push_type(Type::Unknown)).collect();
//@+ let mut tys: Vec<TyID> = Vec::new(); for _x in xs.iter() { tys.push(self.push_type(Type::Unknown)); }
//@   why closure capturing &mut self + collect; map/collect into a Vec pushes one result per element, in order
//@   endrewrite
//@   spec
        requires old(self).inv2(), old(self).valid(a), old(self).valid(b), //# C07 div_res.pre.ids_in_range
        ensures final(self).inv2(), final(self).grows(old(self)), //# C02,C07 div_res.keeps_invariant
            is_num(ty_of(old(self).types@, a)) && !(ty_of(old(self).types@, b) is Unknown) && !(ty_of(old(self).types@, b) is Float) ==> r is Err, //# C03 div_res.number_divided_gives_a_float
            r is Err ==> r->Err_0.len() >= 1, //# C07 div_res.an_error_result_is_never_an_empty_list
//@   endspec
//@   ghost entry
        proof { lemma_heads_refl(self.types@); }
//@   endghost
//@   ghost before-loop 1
                let ghost n1 = self.types@.len() as int;
//@   endghost
//@   loop 1 binder it
                    invariant
                        self.inv2(), self.grows(old(self)), self.valid(a), self.valid(b), //# C02,C07 div_res.loop1.aux1
                        n1 <= self.types@.len(), forall|k: int| 0 <= k < tys@.len() ==> (#[trigger] tys@[k]).0 < self.types@.len(), //# C07 div_res.loop1.aux2
//@   endloop
//@   ghost before-loop 2
                let ghost n2 = self.types@.len(); let ghost xs2 = a@; let ghost ys2 = b@;
//@   endghost
//@   loop 2 binder it
                    invariant
                        self.inv2(), self.grows(old(self)), self.types@.len() >= n2, //# C02,C07 div_res.loop2.aux1
                        xs2.len() == ys2.len(), it.seq().len() == xs2.len(), //# - div_res.loop2.aux2
                        forall|i: int| 0 <= i < xs2.len() ==> *(#[trigger] it.seq()[i]).0 == xs2[i] && *it.seq()[i].1 == ys2[i], //# - div_res.loop2.aux3
                        forall|k: int| 0 <= k < xs2.len() ==> (#[trigger] xs2[k]).0 < n2 && (#[trigger] ys2[k]).0 < n2, //# C07 div_res.loop2.aux4
//@   endloop
//@ end
//@ fn sylt-compiler/src/typechecker.rs equ
//@   in TypeChecker
//@   props C03 C07
//@   attr #[verifier::exec_allows_no_decreases_clause]
//@   ret r
//@   rewrite rule:R-wild
//@- self.unify(span, ctx, a, b).map(|_| ())
//@+ self.unify(span, ctx, a, b).map(|_w| ())
//@   why Verus only accepts a variable as closure parameter; naming the ignored argument changes nothing
//@   endrewrite
//@   spec
        requires old(self).inv2(), old(self).valid(a), old(self).valid(b), //# C07 equ.pre.ids_in_range
        ensures final(self).inv2(), final(self).grows(old(self)), //# C02,C07 equ.keeps_invariant
            head_clash(ty_of(old(self).types@, a), ty_of(old(self).types@, b))
                && rep0(old(self).types@, a.0 as int) != rep0(old(self).types@, b.0 as int) ==> r is Err, //# C03 equ.clashing_types_rejected
            r is Err ==> r->Err_0.len() >= 1, //# C07 equ.an_error_result_is_never_an_empty_list
//@   endspec
//@ end
//@ fn sylt-compiler/src/typechecker.rs check_constraints
//@   in TypeChecker
//@   props C02 C03 C05 C07
//@   attr #[verifier::exec_allows_no_decreases_clause]
//@   attr #[verifier::loop_isolation(false)]
//@   ret r
//@   rewrite rule:R-tmp
//@- for (constraint, original_span) in self.find_node(a).constraints.clone().iter() {
//@+ let hoisted_tmp = self.find_node(a).constraints.clone(); for (constraint, original_span) in hoisted_tmp.iter() {
//@   why Verus does not accept a temporary in the iterator expression of a for loop; hoisting the clone into a let evaluates the same expression once, before the loop, exactly as Rust does
//@   endrewrite
//@   rewrite rule:R-wild
//@- self.unify(*span, ctx, *expected_ty, *actual_ty).map(|_| ())
//@+ self.unify(*span, ctx, *expected_ty, *actual_ty).map(|_w| ())
//@   why Verus only accepts a variable as closure parameter; naming the ignored argument changes nothing
//@   endrewrite
//@   rewrite rule:R-wild
//@- self.unify(span, ctx, *v_a, *v_b).map(|_| ())
//@+ self.unify(span, ctx, *v_a, *v_b).map(|_w| ())
//@   why as above
//@   endrewrite
//@   rewrite rule:R-opaque
//@- let missing = vars
//@-     .iter()
//@-     .cloned()
//@-     .filter(|var| !enum_vars.contains_key(var))
//@-     .collect::<Vec<_>>();
//@+ let missing: Vec<String> = opaque_strings();
//@   why iterator adapters with closures are outside Verus; the list (variants of the case that the enum lacks) is replaced by an uninterpreted list, so whether a TotalEnum constraint on an enum type is accepted is NOT decided here (the arm changes no state)
//@   endrewrite
//@   rewrite rule:R-opaque
//@- let extra = enum_vars
//@-     .iter()
//@-     .map(|(var, _)| var.clone())
//@-     .filter(|var| !vars.contains(var))
//@-     .collect::<Vec<_>>();
//@+ let extra: Vec<String> = opaque_strings();
//@   why as above (variants of the enum that the case does not list)
//@   endrewrite
//@   spec
        requires old(self).inv2(), old(self).valid(a), //# C07 check_constraints.pre.id_in_range
        ensures final(self).inv2(), final(self).grows(old(self)), //# C02,C07 check_constraints.keeps_invariant
            forall|c: Constraint| #[trigger] cons_of(old(self).types@, a.0 as int).contains(c) && con_violated(old(self).types@, a, c) ==> r is Err, //# C02,C03,C05 check_constraints.a_recorded_constraint_that_the_known_types_violate_is_rejected
            r is Err ==> r->Err_0.len() >= 1, //# C07 check_constraints.an_error_result_is_never_an_empty_list
//@   endspec
//@   ghost entry
        let ghost ts0 = self.types@;
        broadcast use lemma_same_graph_frames, group_heads;
        proof { axiom_constraint_key_order(); axiom_string_key_order(); lemma_rep0_props(ts0, a.0 as int); lemma_heads_refl(ts0); }
//@   endghost
//@   loop 1 binder it
            invariant
                self.inv2(), self.grows(old(self)), heads_kept(ts0, self.types@), self.valid(a), //# C02,C07 check_constraints.loop1.aux1
                vstd::std_specs::btree::key_obeys_cmp_spec::<Constraint>(), vstd::std_specs::btree::key_obeys_cmp_spec::<String>(), //# C07 check_constraints.loop1.aux2
                hoisted_tmp@.dom() == cons_of(ts0, a.0 as int), cons_in_range(hoisted_tmp@, ts0.len() as int), //# C02,C07 check_constraints.loop1.aux3
                forall|j: int| 0 <= j < it.seq().len() ==> hoisted_tmp@.dom().contains(*(#[trigger] it.seq()[j]).0), //# - check_constraints.loop1.aux4
                forall|j: int| 0 <= j < it.index@ ==> !con_violated(ts0, a, *(#[trigger] it.seq()[j]).0), //# C02,C03,C05 check_constraints.loop.every_visited_constraint_was_checked
//@   endloop
//@ end
//@ fn sylt-compiler/src/typechecker.rs find_node_mut
//@   in TypeChecker
//@   props C02 C07
//@   ret r
//@   spec
        requires
            wf_forest(old(self).types@), //# C02,C07 find_node_mut.spec.aux1
            (a.0 as int) < old(self).types.len(), //# C07 find_node_mut.pre.id_in_range
        ensures
            final(self).types@.len() == old(self).types@.len(), //# C02,C07 find_node_mut.spec.aux2
            r.parent is None && r.ty == ty_of(old(self).types@, a) && r.constraints == old(self).types@[rep0(old(self).types@, a.0 as int)].constraints
                && r.size == old(self).types@[rep0(old(self).types@, a.0 as int)].size, //# C02 find_node_mut.hands_out_the_root_node
            final(self).types@[rep0(old(self).types@, a.0 as int)] == *final(r), //# C02 find_node_mut.writes_go_to_the_root_node
            forall|i: int| 0 <= i < old(self).types@.len() && i != rep0(old(self).types@, a.0 as int) ==>
                (#[trigger] final(self).types@[i]).ty == old(self).types@[i].ty && final(self).types@[i].size == old(self).types@[i].size
                && final(self).types@[i].constraints == old(self).types@[i].constraints, //# C02 find_node_mut.other_nodes_untouched
            final(r).parent is None ==> wf_forest(final(self).types@)
                && forall|i: int| 0 <= i < old(self).types@.len() ==> #[trigger] rep0(final(self).types@, i) == rep0(old(self).types@, i), //# C02 find_node_mut.partition_unchanged_if_parent_untouched
            final(r).parent is None && final(r).size == r.size && sizes_inv(old(self).types@) ==> sizes_inv(final(self).types@), //# C02 find_node_mut.sizes_kept_if_size_untouched
            final(r).parent is None ==> merges_from(old(self).types@, final(self).types@), //# C02 find_node_mut.classes_only_merge
            final(r).parent is None && (forall|c: Constraint| r.constraints@.dom().contains(c) ==> final(r).constraints@.dom().contains(c)) ==> cons_from(old(self).types@, final(self).types@), //# C02 find_node_mut.no_constraint_dropped_if_the_write_drops_none
            final(r).parent is None ==> forall|o: Seq<TypeNode>| #[trigger] prefix_same(o, old(self).types@) && o.len() <= rep0(old(self).types@, a.0 as int) ==> prefix_same(o, final(self).types@), //# C02 find_node_mut.nodes_below_the_written_one_are_untouched
            final(r).parent is None && (r.ty is Unknown || shape_eq(r.ty, final(r).ty)) ==> heads_from(old(self).types@, final(self).types@), //# C02,C03 find_node_mut.known_types_keep_their_shape_if_the_write_does
            final(self).variables == old(self).variables, //# C07 find_node_mut.spec.aux3
//@   endspec
//@   ghost entry
        let ghost ts0 = self.types@;
        proof { lemma_rep0_props(ts0, a.0 as int); }
//@   endghost
//@   ghost before
//@| &mut self.types[ta]
        proof {
            let mid = self.types@;
            assert(same_graph(ts0, mid));
            lemma_rep0_props(mid, ta as int);
            lemma_same_roots(ts0, mid);
            assert forall|n: TypeNode| n.parent is None implies wf_forest(#[trigger] mid.update(ta as int, n))
                && (forall|i: int| 0 <= i < ts0.len() ==> #[trigger] rep0(mid.update(ta as int, n), i) == rep0(ts0, i))
                && (n.size == mid[ta as int].size && sizes_inv(ts0) ==> sizes_inv(mid.update(ta as int, n)))
                && merges_from(ts0, mid.update(ta as int, n))
                && ((forall|c: Constraint| mid[ta as int].constraints@.dom().contains(c) ==> n.constraints@.dom().contains(c)) ==> cons_from(ts0, mid.update(ta as int, n)))
                && (forall|o: Seq<TypeNode>| #[trigger] prefix_same(o, ts0) && o.len() <= ta ==> prefix_same(o, mid.update(ta as int, n)))
                && (mid[ta as int].ty is Unknown || shape_eq(mid[ta as int].ty, n.ty) ==> heads_from(ts0, mid.update(ta as int, n))) by {
                let upd = mid.update(ta as int, n);
                lemma_parents_same(mid, upd);
                if n.size == mid[ta as int].size && sizes_inv(ts0) { lemma_sum_same(mid, upd, mid.len() as int); }
                assert(merges_only(ts0, upd)) by {
                    assert forall|i: int, j: int| 0 <= i < ts0.len() && 0 <= j < ts0.len() && rep0(ts0, i) == rep0(ts0, j) implies #[trigger] rep0(upd, i) == #[trigger] rep0(upd, j) by {
                        assert(rep0(upd, i) == rep0(mid, i)); assert(rep0(mid, i) == rep0(ts0, i));
                        assert(rep0(upd, j) == rep0(mid, j)); assert(rep0(mid, j) == rep0(ts0, j));
                    }
                }
                lemma_merges_from(ts0, upd);
                if forall|c: Constraint| mid[ta as int].constraints@.dom().contains(c) ==> n.constraints@.dom().contains(c) {
                    assert(cons_mono(ts0, upd)) by {
                        assert forall|i: int, c: Constraint| 0 <= i < ts0.len() && #[trigger] cons_of(ts0, i).contains(c) implies cons_of(upd, i).contains(c) by {
                            lemma_rep0_props(ts0, i);
                            assert(rep0(upd, i) == rep0(mid, i)); assert(rep0(mid, i) == rep0(ts0, i));
                            assert(mid[rep0(ts0, i)].constraints == ts0[rep0(ts0, i)].constraints);
                            if rep0(ts0, i) == ta as int { assert(n.constraints@.dom().contains(c)); }
                        }
                    }
                    lemma_cons_from(ts0, upd);
                }
                if mid[ta as int].ty is Unknown || shape_eq(mid[ta as int].ty, n.ty) {
                    assert(heads_kept(ts0, upd)) by {
                        assert forall|i: int| 0 <= i < ts0.len() && !(#[trigger] cty(ts0, i) is Unknown) implies shape_eq(cty(ts0, i), cty(upd, i)) by {
                            lemma_rep0_props(ts0, i);
                            assert(rep0(upd, i) == rep0(mid, i)); assert(rep0(mid, i) == rep0(ts0, i));
                            assert(mid[rep0(ts0, i)].ty == ts0[rep0(ts0, i)].ty);
                        }
                    }
                    lemma_heads_from(ts0, upd);
                }
                assert forall|i: int| 0 <= i < ts0.len() implies #[trigger] rep0(upd, i) == rep0(ts0, i) by {
                    assert(rep0(upd, i) == rep0(mid, i));
                    assert(rep0(mid, i) == rep0(ts0, i));
                }
                assert forall|o: Seq<TypeNode>| #[trigger] prefix_same(o, ts0) && o.len() <= ta implies prefix_same(o, upd) by {
                    assert forall|i: int| 0 <= i < o.len() implies (#[trigger] upd[i]).ty == o[i].ty && upd[i].constraints == o[i].constraints && rep0(upd, i) == rep0(o, i) by {
                        assert(ts0[i].ty == o[i].ty);
                        assert(mid[i].ty == ts0[i].ty);
                        assert(rep0(upd, i) == rep0(ts0, i));
                    }
                }
            }
        }
//@   endghost
//@ end

//@ fn sylt-compiler/src/typechecker.rs sub_unify
//@   in TypeChecker
//@   props C02 C03 C04 C05 C07
//@   splitmatch 2
//@   split 1 { return Err(opaque_errs(span)); }
//@   attr #[verifier::exec_allows_no_decreases_clause]
//@   attr #[verifier::loop_isolation(false)]
//@   ret r
//@   rewrite rule:R-enum
//@- for (i, (a, b)) in a.iter().zip(b.iter()).enumerate() {
//@+ for (a, b) in a.iter().zip(b.iter()) { let i: usize = opaque_usize();
//@   why Verus has no specification for Iterator::enumerate; the index is only used inside format!(..) message arguments (dropped by D-msg), so an opaque index is a sound replacement
//@   endrewrite
//@   rewrite rule:R-enum count=2
//@- for (i, (a, b)) in a_args.iter().zip(b_args.iter()).enumerate() {
//@+ for (a, b) in a_args.iter().zip(b_args.iter()) { let i: usize = opaque_usize();
//@   why as above
//@   endrewrite
//@   rewrite guard
//@- (
//@-     Type::ExternBlob(_, _, _, a_args, a_id),
//@-     Type::ExternBlob(_, _, _, b_args, b_id),
//@- ) if a_id == b_id => {
//@   endrewrite
//@   spec
        requires old(self).inv2(), old(self).valid(a), old(self).valid(b), //# C02,C07 sub_unify.spec.aux1
            vstd::std_specs::btree::key_obeys_cmp_spec::<(TyID, TyID)>(), //# C02,C07 sub_unify.spec.aux2
        ensures final(self).inv2(), final(self).grows(old(self)), r is Ok ==> final(self).valid(r->Ok_0), //# C02,C07 sub_unify.spec.aux3
            head_clash(ty_of(old(self).types@, a), ty_of(old(self).types@, b))
                && rep0(old(self).types@, a.0 as int) != rep0(old(self).types@, b.0 as int)
                && !old(seen)@.contains((TyID(rep0(old(self).types@, a.0 as int) as usize), TyID(rep0(old(self).types@, b.0 as int) as usize)))
                ==> r is Err, //# C03,C04,C05 sub_unify.clashing_types_rejected
            r is Ok ==> rep0(final(self).types@, a.0 as int) == rep0(final(self).types@, b.0 as int)
                || old(seen)@.contains((TyID(rep0(old(self).types@, a.0 as int) as usize), TyID(rep0(old(self).types@, b.0 as int) as usize))), //# C02,C03,C04,C05 sub_unify.ok_means_one_class_or_already_pending
            r is Ok ==> rep0(final(self).types@, r->Ok_0.0 as int) == rep0(final(self).types@, a.0 as int), //# C02 sub_unify.returns_a_member_of_the_class
            r is Ok && !(ty_of(old(self).types@, a) is Unknown) && !(ty_of(old(self).types@, b) is Unknown)
                && !old(seen)@.contains((TyID(rep0(old(self).types@, a.0 as int) as usize), TyID(rep0(old(self).types@, b.0 as int) as usize)))
                ==> shape_eq(ty_of(old(self).types@, a), ty_of(old(self).types@, b)), //# C03,C05 sub_unify.two_known_types_that_unify_have_one_shape
            r is Err ==> r->Err_0.len() >= 1, //# C07 sub_unify.an_error_result_is_never_an_empty_list
//@   endspec
//@   ghost entry
        let ghost ts0 = self.types@; let ghost a0 = a; let ghost b0 = b;
        proof { axiom_string_key_order(); lemma_rep0_props(ts0, a0.0 as int); lemma_rep0_props(ts0, b0.0 as int); }
//@   endghost
//@   ghost before-loop 1
                let ghost n1 = self.types@.len(); let ghost xs1 = a@; let ghost ys1 = b@;
//@   endghost
//@   loop 1 binder it
                    invariant
                        xs1.len() == ys1.len(), it.seq().len() == xs1.len(), //# C03,C05 sub_unify.loop1.tuple_lengths_match
                        self.inv2(), self.grows(old(self)), self.types@.len() >= n1, merges_only(ts1, self.types@), heads_kept(ts1, self.types@), //# C02,C07 sub_unify.loop1.aux1
                        vstd::std_specs::btree::key_obeys_cmp_spec::<(TyID, TyID)>(), //# C02,C07 sub_unify.loop1.aux2
                        forall|i: int| 0 <= i < xs1.len() ==> *(#[trigger] it.seq()[i]).0 == xs1[i] && *it.seq()[i].1 == ys1[i], //# - sub_unify.loop1.aux3
                        forall|k: int| 0 <= k < xs1.len() ==> (#[trigger] xs1[k]).0 < n1 && (#[trigger] ys1[k]).0 < n1, //# C07 sub_unify.loop1.aux4
//@   endloop
//@   ghost before-loop 2
                let ghost n2 = self.types@.len(); let ghost xs2 = a_args@; let ghost ys2 = b_args@;
//@   endghost
//@   loop 2 binder it
                    invariant
                        xs2.len() == ys2.len(), it.seq().len() == xs2.len(), //# C03 sub_unify.loop2.arities_match
                        self.inv2(), self.grows(old(self)), self.types@.len() >= n2, merges_only(ts1, self.types@), heads_kept(ts1, self.types@), //# C02,C07 sub_unify.loop2.aux1
                        vstd::std_specs::btree::key_obeys_cmp_spec::<(TyID, TyID)>(), //# C02,C07 sub_unify.loop2.aux2
                        forall|i: int| 0 <= i < xs2.len() ==> *(#[trigger] it.seq()[i]).0 == xs2[i] && *it.seq()[i].1 == ys2[i], //# - sub_unify.loop2.aux3
                        forall|k: int| 0 <= k < xs2.len() ==> (#[trigger] xs2[k]).0 < n2 && (#[trigger] ys2[k]).0 < n2, //# C07 sub_unify.loop2.aux4
//@   endloop
//@   loop 3 binder it
                    invariant
                        vstd::std_specs::btree::key_obeys_cmp_spec::<String>(), //# C07 sub_unify.loop3.aux1
                        forall|j: int| 0 <= j < it.seq().len() ==> a_fields@.dom().contains(*(#[trigger] it.seq()[j]).0), //# - sub_unify.loop3.aux2
                        forall|j: int| 0 <= j < it.index@ ==> b_fields@.dom().contains(*(#[trigger] it.seq()[j]).0), //# C05 sub_unify.loop3.every_field_of_the_first_blob_is_a_field_of_the_second
//@   endloop
//@   ghost after-loop 3
                assert(forall|k: String| a_fields@.dom().contains(k) ==> b_fields@.dom().contains(k)); //# C05 sub_unify.fields_of_the_first_blob_are_fields_of_the_second
//@   endghost
//@   ghost before-loop 4
                let ghost n4 = self.types@.len();
//@   endghost
//@   loop 4 binder it
                    invariant
                        self.inv2(), self.grows(old(self)), self.types@.len() >= n4, merges_only(ts1, self.types@), heads_kept(ts1, self.types@), //# C02,C07 sub_unify.loop4.aux1
                        vstd::std_specs::btree::key_obeys_cmp_spec::<(TyID, TyID)>(), //# C02,C07 sub_unify.loop4.aux2
                        vstd::std_specs::btree::key_obeys_cmp_spec::<String>(), //# C02,C07 sub_unify.loop4.aux3
                        fields_in_range(a_fields, n4 as int), fields_in_range(b_fields, n4 as int), //# C02,C07 sub_unify.loop4.aux4
                        forall|j: int| 0 <= j < it.seq().len() ==> b_fields@.contains_pair(*(#[trigger] it.seq()[j]).0, *it.seq()[j].1), //# - sub_unify.loop4.aux5
                        forall|j: int| 0 <= j < it.index@ ==> a_fields@.dom().contains(*(#[trigger] it.seq()[j]).0), //# C05 sub_unify.loop4.every_field_of_the_second_blob_is_a_field_of_the_first
//@   endloop
//@   ghost after-loop 4
                assert(a_fields@.dom() =~= b_fields@.dom()); //# C05 sub_unify.unified_blobs_have_the_same_field_names
//@   endghost
//@   ghost before-loop 5
                let ghost n5 = self.types@.len(); let ghost xs5 = a_args@; let ghost ys5 = b_args@;
//@   endghost
//@   loop 5 binder it
                    invariant
                        self.inv2(), self.grows(old(self)), self.types@.len() >= n5, merges_only(ts1, self.types@), heads_kept(ts1, self.types@), //# C02,C07 sub_unify.loop5.aux1
                        vstd::std_specs::btree::key_obeys_cmp_spec::<(TyID, TyID)>(), //# C02,C07 sub_unify.loop5.aux2
                        it.seq().len() <= xs5.len(), it.seq().len() <= ys5.len(), //# - sub_unify.loop5.aux3
                        forall|i: int| 0 <= i < it.seq().len() ==> *(#[trigger] it.seq()[i]).0 == xs5[i] && *it.seq()[i].1 == ys5[i], //# - sub_unify.loop5.aux4
                        forall|k: int| 0 <= k < xs5.len() ==> (#[trigger] xs5[k]).0 < n5, //# C07 sub_unify.loop5.aux5
                        forall|k: int| 0 <= k < ys5.len() ==> (#[trigger] ys5[k]).0 < n5, //# C07 sub_unify.loop5.aux6
//@   endloop
//@   loop 6 binder it
                    invariant
                        vstd::std_specs::btree::key_obeys_cmp_spec::<String>(), //# C07 sub_unify.loop6.aux1
                        forall|j: int| 0 <= j < it.seq().len() ==> a_variants@.dom().contains(*(#[trigger] it.seq()[j]).0), //# - sub_unify.loop6.aux2
                        forall|j: int| 0 <= j < it.index@ ==> b_variants@.dom().contains(*(#[trigger] it.seq()[j]).0), //# C05 sub_unify.loop6.every_variant_of_the_first_enum_is_a_variant_of_the_second
//@   endloop
//@   ghost after-loop 6
                assert(forall|k: String| a_variants@.dom().contains(k) ==> b_variants@.dom().contains(k)); //# C05 sub_unify.variants_of_the_first_enum_are_variants_of_the_second
//@   endghost
//@   ghost before-loop 7
                let ghost n7 = self.types@.len();
//@   endghost
//@   loop 7 binder it
                    invariant
                        self.inv2(), self.grows(old(self)), self.types@.len() >= n7, merges_only(ts1, self.types@), heads_kept(ts1, self.types@), //# C02,C07 sub_unify.loop7.aux1
                        vstd::std_specs::btree::key_obeys_cmp_spec::<(TyID, TyID)>(), //# C02,C07 sub_unify.loop7.aux2
                        vstd::std_specs::btree::key_obeys_cmp_spec::<String>(), //# C02,C07 sub_unify.loop7.aux3
                        fields_in_range(a_variants, n7 as int), fields_in_range(b_variants, n7 as int), //# C02,C07 sub_unify.loop7.aux4
                        forall|j: int| 0 <= j < it.seq().len() ==> b_variants@.contains_pair(*(#[trigger] it.seq()[j]).0, *it.seq()[j].1), //# - sub_unify.loop7.aux5
                        forall|j: int| 0 <= j < it.index@ ==> a_variants@.dom().contains(*(#[trigger] it.seq()[j]).0), //# C05 sub_unify.loop7.every_variant_of_the_second_enum_is_a_variant_of_the_first
//@   endloop
//@   ghost after-loop 7
                assert(a_variants@.dom() =~= b_variants@.dom()); //# C05 sub_unify.unified_enums_have_the_same_variant_names
//@   endghost
//@   ghost before
//@| if a == b || seen.contains(&(a, b)) {
        let ghost ts1 = self.types@;
        proof {
            lemma_merges_refl(ts1); lemma_heads_refl(ts1);
            assert(ty_of(ts1, a) == cty(ts1, a.0 as int)); assert(ty_of(ts1, b) == cty(ts1, b.0 as int));
            lemma_rep0_props(ts1, a.0 as int); lemma_rep0_props(ts1, b.0 as int);
            assert(rep0(ts1, a0.0 as int) == a.0 as int); assert(rep0(ts1, b0.0 as int) == b.0 as int);
        }
//@   endghost
//@   ghost before
//@| self.check_constraints(span, ctx, a)?;
        let ghost tsu = self.types@;
        proof { lemma_merges_refl(tsu); }
//@   endghost
//@ end

//@ fn sylt-compiler/src/typechecker.rs unify
//@   in TypeChecker
//@   props C02 C03 C04 C05 C07
//@   attr #[verifier::exec_allows_no_decreases_clause]
//@   ret r
//@   spec
        requires old(self).inv2(), old(self).valid(a), old(self).valid(b), //# C02,C07 unify.spec.aux1
        ensures final(self).inv2(), final(self).grows(old(self)), r is Ok ==> final(self).valid(r->Ok_0), //# C02,C07 unify.spec.aux2
            head_clash(ty_of(old(self).types@, a), ty_of(old(self).types@, b))
                && rep0(old(self).types@, a.0 as int) != rep0(old(self).types@, b.0 as int) ==> r is Err, //# C03,C04,C05 unify.clashing_types_rejected
            r is Ok ==> rep0(final(self).types@, a.0 as int) == rep0(final(self).types@, b.0 as int), //# C02,C03,C04,C05 unify.ok_means_the_two_ids_are_one_class
            r is Ok ==> rep0(final(self).types@, r->Ok_0.0 as int) == rep0(final(self).types@, a.0 as int), //# C02 unify.returns_a_member_of_the_class
            r is Ok && !(ty_of(old(self).types@, a) is Unknown) && !(ty_of(old(self).types@, b) is Unknown)
                ==> shape_eq(ty_of(old(self).types@, a), ty_of(old(self).types@, b)), //# C03,C05 unify.two_known_types_that_unify_have_one_shape
            r is Err ==> r->Err_0.len() >= 1, //# C07 unify.an_error_result_is_never_an_empty_list
//@   endspec
//@   ghost entry
        proof { axiom_tyid_pair_key_order(); }
//@   endghost
//@ end

//@ fn sylt-compiler/src/typechecker.rs unify_option
//@   in TypeChecker
//@   props C07
//@   ret r
//@   spec
        requires old(self).inv2(), a is Some ==> old(self).valid(a->Some_0), b is Some ==> old(self).valid(b->Some_0), //# C07 unify_option.spec.aux1
        ensures final(self).inv2(), final(self).grows(old(self)), //# C07 unify_option.spec.aux2
            r is Ok && r->Ok_0 is Some ==> final(self).valid(r->Ok_0->Some_0), //# C07 unify_option.spec.aux3
            r is Ok ==> (r->Ok_0 is None <==> a is None && b is None), //# C03 unify_option.none_iff_both_none
            r is Ok && a is Some && b is Some ==> rep0(final(self).types@, a->Some_0.0 as int) == rep0(final(self).types@, b->Some_0.0 as int), //# C02,C03 unify_option.two_given_types_end_up_in_one_class
            r is Ok && a is Some ==> rep0(final(self).types@, r->Ok_0->Some_0.0 as int) == rep0(final(self).types@, a->Some_0.0 as int), //# C02,C03 unify_option.the_result_is_in_the_class_of_the_first_given_type
            r is Ok && b is Some ==> rep0(final(self).types@, r->Ok_0->Some_0.0 as int) == rep0(final(self).types@, b->Some_0.0 as int), //# C02,C03 unify_option.the_result_is_in_the_class_of_the_second_given_type
            r is Err ==> r->Err_0.len() >= 1, //# C07 unify_option.an_error_result_is_never_an_empty_list
//@   endspec
//@ end

//@ fn sylt-compiler/src/typechecker.rs can_assign
//@   in TypeChecker
//@   props C04 C07
//@   ret r
//@   spec
        requires
            target_ok(*assignable, old(self).variables@.len() as int), //# C07 can_assign.pre.var_in_range
        ensures
            final(self).types@ == old(self).types@ && final(self).variables == old(self).variables, //# C04 can_assign.no_state_change
            r is Ok <==> assignable_ok(old(self).variables@, *assignable), //# C04 can_assign.ok_iff_assignable_table
            r is Err ==> r->Err_0.len() >= 1 && r->Err_0[0].span() == (if *assignable is Read { assignable->Read_span } else { span }), //# C04 can_assign.error_span
            r is Err ==> r->Err_0.len() >= 1, //# C07 can_assign.an_error_result_is_never_an_empty_list
//@   endspec
//@ end

//@ fn sylt-compiler/src/typechecker.rs constant_index
//@   in TypeChecker
//@   props C05 C07
//@   attr #[verifier::exec_allows_no_decreases_clause]
//@   ret r
//@   rewrite rule:R-wild
//@- Some(ty) => self.unify(span, ctx, *ty, ret).map(|_| ()),
//@+ Some(ty) => self.unify(span, ctx, *ty, ret).map(|_w| ()),
//@   why Verus only accepts a variable as closure parameter; naming the ignored argument changes nothing
//@   endrewrite
//@   spec
        requires old(self).inv2(), old(self).valid(a), old(self).valid(ret), //# C07 constant_index.spec.aux1
        ensures final(self).inv2(), final(self).grows(old(self)), //# C07 constant_index.spec.aux2
            (ty_of(old(self).types@, a) is Tuple && index >= ty_of(old(self).types@, a)->Tuple_0.len()) ==> r is Err, //# C05 constant_index.out_of_range_rejected
            ty_of(old(self).types@, a) is Unknown ==> r is Ok, //# C05 constant_index.unknown_deferred
            !(ty_of(old(self).types@, a) is Unknown) && !(ty_of(old(self).types@, a) is Tuple) ==> r is Err, //# C05 constant_index.non_tuple_rejected
            r is Err && !(ty_of(old(self).types@, a) is Tuple) ==> r->Err_0.len() >= 1 && r->Err_0[0].span() == span, //# C07 constant_index.spec.aux3
            r is Err ==> r->Err_0.len() >= 1, //# C07 constant_index.an_error_result_is_never_an_empty_list
//@   endspec
//@   ghost entry
        proof { lemma_view_members(self.types@, a); }
//@   endghost
//@ end

//@ fn sylt-compiler/src/typechecker.rs type_from_function
//@   in TypeChecker
//@   props C03 C07
//@   attr #[verifier::loop_isolation(false)]
//@   ret r
//@   spec
        requires old(self).inv2(), //# C07 type_from_function.spec.aux1
            forall|k: int| 0 <= k < params@.len() ==> (#[trigger] params@[k]).1 < old(self).variables@.len() && rt_ok(params@[k].3, old(self).variables@.len() as int), //# C07 type_from_function.pre.params_in_range
            rt_ok(*ret, old(self).variables@.len() as int), //# C07 type_from_function.pre.return_type_is_translatable
        ensures final(self).inv2(), final(self).grows(old(self)), //# C07 type_from_function.spec.aux2
            r is Ok ==> final(self).valid(r->Ok_0.0) && final(self).valid(r->Ok_0.1), //# C07 type_from_function.spec.aux3
            r is Ok ==> ty_of(final(self).types@, r->Ok_0.0) is Function, //# C03 type_from_function.builds_function_type
            r is Ok ==> ty_of(final(self).types@, r->Ok_0.0)->Function_0.len() == params@.len(), //# C03 type_from_function.arity_is_param_count
            r is Ok ==> (ty_of(final(self).types@, r->Ok_0.0)->Function_2 is Pure <==> pure) && !(ty_of(final(self).types@, r->Ok_0.0)->Function_2 is Undefined), //# C04 type_from_function.purity_from_literal
            r is Ok && *ret is Generic ==> forall|k: int| 0 <= k < params@.len() && (#[trigger] params@[k]).3 is Generic && params@[k].3->Generic_0 == ret->Generic_0
                ==> rep0(final(self).types@, r->Ok_0.1.0 as int) == rep0(final(self).types@, final(self).variables@[params@[k].1 as int].ty.0 as int), //# C03 type_from_function.a_type_variable_in_the_return_type_is_the_one_of_the_parameters
            r is Err ==> r->Err_0.len() >= 1, //# C07 type_from_function.an_error_result_is_never_an_empty_list
//@   endspec
//@   ghost entry
        broadcast use vstd::std_specs::hash::group_hash_axioms;
        proof { axiom_string_hash_key(); }
//@   endghost
//@   loop 1 binder it
            invariant
                self.inv2(), self.grows(old(self)), sn_ok(seen@, self.types@.len() as int), vstd::std_specs::hash::obeys_key_model::<String>(), //# C07 type_from_function.loop1.aux1
                it.seq().len() == params@.len(), //# - type_from_function.loop1.aux2
                forall|k: int| 0 <= k < params@.len() ==> *(#[trigger] it.seq()[k]) == params@[k], //# - type_from_function.loop1.aux3
                args@.len() == it.index@, //# - type_from_function.loop1.aux4
                forall|k: int| 0 <= k < args@.len() ==> self.valid(#[trigger] args@[k]), //# C07 type_from_function.loop1.aux5
                generic_params_joined(self.types@, self.variables@, params@, it.index@ as int, seen@), //# C03 type_from_function.loop1.parameters_written_as_a_type_variable_are_in_the_class_of_that_variable
//@   endloop
//@   ghost loop-body 1
            let ghost ts_pb = self.types@; let ghost seen_pb = seen@;
            proof { lemma_merges_refl(ts_pb); }
//@   endghost
//@   ghost loop-end 1
            proof {
                lemma_generic_params_mono(ts_pb, self.types@, self.variables@, params@, it.index@ as int, seen_pb, seen@);
            } //# C03 type_from_function.loop1.joining_step
//@   endghost
//@   ghost after-loop 1
        let ghost ts_pl = self.types@; let ghost seen_pl = seen@;
        proof { lemma_merges_refl(ts_pl); }
//@   endghost
//@   ghost before
//@| let f = self.push_type(Type::Function(args, ret, purity));
        let ghost nargs = args@.len();
//@   endghost
//@   ghost after
//@| let f = self.push_type(Type::Function(args, ret, purity));
        proof { reveal(push_frame); lemma_rep0_props(self.types@, f.0 as int); }
//@   endghost
//@ end

//@ fn sylt-compiler/src/typechecker.rs definition
//@   in TypeChecker
//@   props C04 C07
//@   attr #[verifier::exec_allows_no_decreases_clause]
//@   ret r
//@   spec
        requires old(self).inv2(), //# C07 definition.spec.aux1
            *statement is Definition, //# C07 definition.pre.is_definition
            s_ok(*statement, old(self).variables@.len() as int), //# C07 definition.pre.tree_is_well_formed
        ensures final(self).inv2(), final(self).grows(old(self)), //# C07 definition.spec.aux2
            r is Ok && r->Ok_0 is Some ==> final(self).valid(r->Ok_0->Some_0), //# C07 definition.spec.aux3
            ctx.inside_pure && statement->Definition_kind is Mutable ==> r is Err, //# C04 definition.mutable_in_pure_rejected
            decl_lit_clash(*statement) ==> r is Err, //# C03 definition.a_literal_that_contradicts_the_declared_primitive_type_is_rejected
            r is Ok ==> s_pur(old(self).variables@, *statement, ctx.inside_pure), //# C04 definition.pure_ok
            r is Ok ==> s_brk(*statement, ctx.inside_loop), //# C05 definition.break_ok
            r is Err ==> r->Err_0.len() >= 1, //# C07 definition.an_error_result_is_never_an_empty_list
//@   endspec
//@   ghost entry
        proof { reveal_with_fuel(s_below, 2); reveal_with_fuel(s_nodecl, 2); reveal_with_fuel(s_shape, 2); }
//@   endghost
//@   ghost before
//@| self.add_constraint(ty, *span, Constraint::Variable);
            let ghost tid = ty;
            assert(decl_lit_clash(*statement) ==> head(ty_of(self.types@, tid)) == prim_head(statement->Definition_ty)->Some_0); //# - definition.hint1
//@   endghost
//@   ghost before
//@| let (value_ret, value_ty) = self.expression(value, ctx)?;
            assert(decl_lit_clash(*statement) ==> head(ty_of(self.types@, var_ty)) == prim_head(statement->Definition_ty)->Some_0); //# - definition.hint2
//@   endghost
//@ end

//@ fn sylt-compiler/src/typechecker.rs statement
//@   in TypeChecker
//@   props C04 C05 C07
//@   attr #[verifier::exec_allows_no_decreases_clause]
//@   ret r
//@   rewrite rule:D-timed
//@- let _handle =
//@-     sylt_macro::timed_handle!("typecheck::statement", line_start = span.line_start);
//@+ let _handle = ();
//@   why profiling handle, compiled to () without the `timed` feature
//@   endrewrite
//@   spec
        requires old(self).inv2(), //# C07 statement.spec.aux1
            s_ok(*statement, old(self).variables@.len() as int), //# C07 statement.pre.no_nested_declaration_and_vars_in_range
        ensures final(self).inv2(), final(self).grows(old(self)), //# C07 statement.spec.aux2
            r is Ok && r->Ok_0 is Some ==> final(self).valid(r->Ok_0->Some_0), //# C07 statement.spec.aux3
            (*statement is Break || *statement is Continue) && !ctx.inside_loop ==> r is Err, //# C05 statement.break_outside_loop_rejected
            *statement is Assignment && ctx.inside_pure ==> r is Err, //# C04 statement.assignment_in_pure_rejected
            *statement is Assignment && !assignable_ok(old(self).variables@, statement->Assignment_target) ==> r is Err, //# C04 statement.assignment_to_constant_rejected
            r is Ok && s_ret(*statement) ==> r->Ok_0 is Some, //# C02,C03 statement.a_statement_that_returns_reports_a_return_type
            r is Ok ==> s_brk(*statement, ctx.inside_loop), //# C05 statement.break_ok
            r is Ok ==> s_pur(old(self).variables@, *statement, ctx.inside_pure), //# C04 statement.pure_ok
            r is Err ==> r->Err_0.len() >= 1, //# C07 statement.an_error_result_is_never_an_empty_list
//@   endspec
//@   ghost entry
        proof { reveal_with_fuel(s_below, 2); reveal_with_fuel(s_nodecl, 2); reveal_with_fuel(s_shape, 2); }
//@   endghost
//@ end

//@ fn sylt-compiler/src/typechecker.rs expression_block
//@   in TypeChecker
//@   props C04 C05 C07
//@   attr #[verifier::exec_allows_no_decreases_clause]
//@   attr #[verifier::loop_isolation(false)]
//@   ret r
//@   spec
        requires old(self).inv2(), //# C07 expression_block.spec.aux1
            all_ok(statements@, old(self).variables@.len() as int), //# C07 expression_block.pre.statements_ok
        ensures final(self).inv2(), final(self).grows(old(self)), //# C07 expression_block.spec.aux2
            r is Ok && r->Ok_0.0 is Some ==> final(self).valid(r->Ok_0.0->Some_0), //# C07 expression_block.spec.aux3
            r is Ok && r->Ok_0.1 is Some ==> final(self).valid(r->Ok_0.1->Some_0), //# C07 expression_block.spec.aux4
            r is Ok && any_ret(statements@, statements@.len() as int) ==> r->Ok_0.0 is Some, //# C02,C03 expression_block.a_block_with_a_statement_that_returns_reports_a_return_type
            r is Ok ==> all_brk(statements@, ctx.inside_loop), //# C05 expression_block.break_ok
            r is Ok ==> all_pur(old(self).variables@, statements@, ctx.inside_pure), //# C04 expression_block.pure_ok
            r is Err ==> r->Err_0.len() >= 1, //# C07 expression_block.an_error_result_is_never_an_empty_list
//@   endspec
//@   loop 1 binder it
            invariant
                self.inv2(), self.grows(old(self)), it.seq().len() == statements@.len(), //# - expression_block.loop1.aux1
                forall|k: int| 0 <= k < statements@.len() ==> *(#[trigger] it.seq()[k]) == statements@[k], //# - expression_block.loop1.aux2
                ret is Some ==> self.valid(ret->Some_0), //# C07 expression_block.loop1.aux3
                any_ret(statements@, it.index@ as int) ==> ret is Some, //# C02,C03 expression_block.loop.no_return_of_the_statements_so_far_is_dropped
                forall|i: int| 0 <= i < it.index@ ==> s_brk(#[trigger] statements@[i], ctx.inside_loop), //# C05 expression_block.loop.break_ok
                forall|i: int| 0 <= i < it.index@ ==> s_pur(old(self).variables@, #[trigger] statements@[i], ctx.inside_pure), //# C04 expression_block.loop.pure_ok
//@   endloop
//@ end
}

/// after the two `find`s of `union`: the roots are the old representatives
proof fn lemma_union_roots(ts0: Seq<TypeNode>, ts2: Seq<TypeNode>, a0: int, b0: int, a: usize, b: usize)
    requires
        wf_forest(ts0), wf_forest(ts2), same_graph(ts0, ts2), 0 <= a0 < ts0.len(), 0 <= b0 < ts0.len(),
        a as int == rep0(ts0, a0), b as int == rep0(ts2, b0) || b as int == rep0(ts0, b0),
    ensures
        a as int == rep0(ts0, a0), b as int == rep0(ts0, b0), (a as int) < ts0.len(), (b as int) < ts0.len(),
        ts2[a as int].parent is None, ts2[b as int].parent is None,
        ts0[a as int].parent is None, ts0[b as int].parent is None,
        ts2[a as int].size == ts0[a as int].size, ts2[b as int].size == ts0[b as int].size,
{
    assert(rep0(ts2, b0) == rep0(ts0, b0));
    lemma_rep0_props(ts0, a0); lemma_rep0_props(ts0, b0);
    lemma_rep0_props(ts0, a as int); lemma_rep0_props(ts0, b as int);
    lemma_rep0_props(ts2, a as int); lemma_rep0_props(ts2, b as int);
    assert(rep0(ts2, a as int) == rep0(ts0, a as int));
    assert(rep0(ts2, b as int) == rep0(ts0, b as int));
    assert(ts2[a as int].size == ts0[a as int].size);
    assert(ts2[b as int].size == ts0[b as int].size);
}
/// both ids already in one class: nothing changes
proof fn lemma_union_noop(ts0: Seq<TypeNode>, ts2: Seq<TypeNode>, a0: int, b0: int)
    requires
        wf_forest(ts0), ids_closed(ts0), wf_forest(ts2), same_graph(ts0, ts2), 0 <= a0 < ts0.len(), 0 <= b0 < ts0.len(),
        rep0(ts0, a0) == rep0(ts0, b0),
    ensures
        ids_closed(ts2), sizes_inv(ts0) ==> sizes_inv(ts2),
        merges_from(ts0, ts2), rep0(ts2, a0) == rep0(ts2, b0), cons_from(ts0, ts2), heads_from(ts0, ts2),
        merged_into(ts0, ts2, rep0(ts0, a0), rep0(ts0, b0), rep0(ts0, a0)),
        forall|i: int| 0 <= i < ts0.len() ==> #[trigger] cons_of(ts2, i) == cons_of(ts0, i),
        forall|i: int| 0 <= i < ts0.len() ==> (#[trigger] ts2[i]).ty == ts0[i].ty,
{
    lemma_same_graph(ts0, ts2);
    lemma_same_roots(ts0, ts2);
    lemma_unchanged_from_same_graph(ts0, ts2);
    lemma_cons_same_graph(ts0, ts2);
    lemma_heads_same_types(ts0, ts2);
    assert(rep0(ts2, a0) == rep0(ts0, a0)); assert(rep0(ts2, b0) == rep0(ts0, b0));
    assert forall|i: int| 0 <= i < ts0.len() implies #[trigger] cons_of(ts2, i) == cons_of(ts0, i) by {
        lemma_rep0_props(ts0, i);
        assert(rep0(ts2, i) == rep0(ts0, i));
        assert(ts2[rep0(ts0, i)].constraints == ts0[rep0(ts0, i)].constraints);
    }
    assert forall|i: int| 0 <= i < ts0.len() implies #[trigger] rep0(ts2, i) == (if rep0(ts0, i) == rep0(ts0, a0) || rep0(ts0, i) == rep0(ts0, b0) { rep0(ts0, a0) } else { rep0(ts0, i) }) by {
        assert(rep0(ts2, i) == rep0(ts0, i));
    }
}
/// linking root l (loser) under root w (winner)
proof fn lemma_union_link(ts2: Seq<TypeNode>, ts3: Seq<TypeNode>, w: usize, l: usize)
    requires
        wf_forest(ts2), (w as int) < ts2.len(), (l as int) < ts2.len(), w != l,
        ts2[w as int].parent is None, ts2[l as int].parent is None,
        ts3.len() == ts2.len(), ts3[l as int].parent == Some(TyID(w)),
        forall|j: int| 0 <= j < ts2.len() && j != l as int ==> (#[trigger] ts3[j]).parent == ts2[j].parent,
    ensures
        wf_forest(ts3),
        forall|i: int| 0 <= i < ts2.len() ==> #[trigger] rep0(ts3, i) == (if rep0(ts2, i) == l as int { w as int } else { rep0(ts2, i) }),
{
    let h = the_h(ts2);
    let h3 = shift_h(ts2, h, w as int, l as int);
    lemma_link(ts2, ts3, h, w, l, 0);
    assert(hok(ts3, h3));
    assert forall|i: int| 0 <= i < ts2.len() implies #[trigger] rep0(ts3, i) == (if rep0(ts2, i) == l as int { w as int } else { rep0(ts2, i) }) by {
        lemma_link(ts2, ts3, h, w, l, i);
        lemma_rep_indep(ts3, the_h(ts3), h3, i);
    }
}
/// puts the steps of `union` together
proof fn lemma_union_final(ts0: Seq<TypeNode>, ts2: Seq<TypeNode>, ts3: Seq<TypeNode>, ts4: Seq<TypeNode>,
                           a0: int, b0: int, ra: usize, rb: usize, w: usize, l: usize)
    requires
        wf_forest(ts0), ids_closed(ts0), wf_forest(ts2), same_graph(ts0, ts2), 0 <= a0 < ts0.len(), 0 <= b0 < ts0.len(),
        ra as int == rep0(ts0, a0), rb as int == rep0(ts0, b0), ra != rb,
        (w == ra && l == rb) || (w == rb && l == ra),
        ts2[ra as int].parent is None, ts2[rb as int].parent is None,
        // step 1 (ts2 -> ts3): link and size update
        ts3.len() == ts2.len(), ts3[l as int].parent == Some(TyID(w)),
        forall|j: int| 0 <= j < ts2.len() && j != l as int ==> (#[trigger] ts3[j]).parent == ts2[j].parent,
        forall|j: int| 0 <= j < ts2.len() ==> (#[trigger] ts3[j]).ty == ts2[j].ty && ts3[j].constraints == ts2[j].constraints,
        sizes_inv(ts0), ts3[w as int].size == ts2[w as int].size + ts2[l as int].size,
        forall|j: int| 0 <= j < ts2.len() && j != w as int ==> (#[trigger] ts3[j]).size == ts2[j].size,
        forall|i: int| 0 <= i < ts3.len() ==> (#[trigger] ts4[i]).size == ts3[i].size,
        // step 2 (ts3 -> ts4): constraints of the loser copied into the winner
        ts4.len() == ts3.len(),
        forall|i: int| 0 <= i < ts3.len() ==> (#[trigger] ts4[i]).parent == ts3[i].parent && ts4[i].ty == ts3[i].ty,
        forall|i: int| 0 <= i < ts3.len() && i != w as int ==> (#[trigger] ts4[i]).constraints == ts3[i].constraints,
        forall|c: Constraint| #[trigger] ts4[w as int].constraints@.dom().contains(c) <==>
            ts3[w as int].constraints@.dom().contains(c) || ts3[l as int].constraints@.dom().contains(c),
    ensures
        wf_forest(ts4), ids_closed(ts4), sizes_inv(ts4),
        merges_from(ts0, ts4), rep0(ts4, a0) == rep0(ts4, b0), cons_from(ts0, ts4),
        shape_eq(cty(ts0, a0), cty(ts0, b0)) ==> heads_from(ts0, ts4),
        forall|i: int| 0 <= i < ts0.len() ==> (#[trigger] ts4[i]).ty == ts0[i].ty,
        merged_into(ts0, ts4, rep0(ts0, a0), rep0(ts0, b0), w as int),
        forall|c: Constraint| #[trigger] cons_of(ts4, a0).contains(c) <==> cons_of(ts0, a0).contains(c) || cons_of(ts0, b0).contains(c),
        forall|i: int| 0 <= i < ts0.len() && rep0(ts0, i) != rep0(ts0, a0) && rep0(ts0, i) != rep0(ts0, b0)
            ==> #[trigger] cons_of(ts4, i) == cons_of(ts0, i),
{
    lemma_rep0_props(ts0, a0); lemma_rep0_props(ts0, b0);
    lemma_union_link(ts2, ts3, w, l);
    lemma_parents_same(ts3, ts4);
    // sizes: ts0 -> ts2 same roots and sizes; ts2 -> ts3 the link; ts3 -> ts4 nothing relevant changes
    lemma_same_roots(ts0, ts2);
    lemma_sum_link(ts2, ts3, ts2.len() as int, w as int, l as int);
    lemma_sum_same(ts3, ts4, ts3.len() as int);
    assert forall|i: int| 0 <= i < ts0.len() implies (#[trigger] ts4[i]).ty == ts0[i].ty by {
        assert(ts3[i].ty == ts2[i].ty);
    }
    assert forall|i: int| 0 <= i < ts4.len() implies ids_in_range((#[trigger] ts4[i]).ty, ts4.len() as int) by {
        assert(ts4[i].ty == ts0[i].ty);
        assert(ids_in_range(ts0[i].ty, ts0.len() as int));
    }
    assert forall|i: int| 0 <= i < ts0.len() implies
        #[trigger] rep0(ts4, i) == (if rep0(ts0, i) == rep0(ts0, a0) || rep0(ts0, i) == rep0(ts0, b0) { w as int } else { rep0(ts0, i) }) by {
        assert(rep0(ts4, i) == rep0(ts3, i));
        assert(rep0(ts2, i) == rep0(ts0, i));
    }
    assert(merges_only(ts0, ts4)) by {
        assert forall|i: int, j: int| 0 <= i < ts0.len() && 0 <= j < ts0.len() && rep0(ts0, i) == rep0(ts0, j) implies #[trigger] rep0(ts4, i) == #[trigger] rep0(ts4, j) by {}
    }
    lemma_merges_from(ts0, ts4);
    assert(rep0(ts4, b0) == w as int);
    // constraints
    assert(rep0(ts4, a0) == w as int);
    assert(ts3[w as int].constraints == ts2[w as int].constraints);
    assert(ts3[l as int].constraints == ts2[l as int].constraints);
    assert(ts2[w as int].constraints == ts0[w as int].constraints);
    assert(ts2[l as int].constraints == ts0[l as int].constraints);
    assert forall|i: int| 0 <= i < ts0.len() && rep0(ts0, i) != rep0(ts0, a0) && rep0(ts0, i) != rep0(ts0, b0)
        implies #[trigger] cons_of(ts4, i) == cons_of(ts0, i) by {
        lemma_rep0_props(ts0, i);
        let r = rep0(ts0, i);
        assert(rep0(ts4, i) == r);
        assert(ts4[r].constraints == ts3[r].constraints);
        assert(ts3[r].constraints == ts2[r].constraints);
        assert(ts2[r].constraints == ts0[r].constraints);
    }
    assert(cons_mono(ts0, ts4)) by {
        assert forall|i: int, c: Constraint| 0 <= i < ts0.len() && #[trigger] cons_of(ts0, i).contains(c) implies cons_of(ts4, i).contains(c) by {
            lemma_rep0_props(ts0, i);
            if rep0(ts0, i) == rep0(ts0, a0) || rep0(ts0, i) == rep0(ts0, b0) {
                assert(rep0(ts4, i) == w as int);
                assert(cons_of(ts4, i) == ts4[w as int].constraints@.dom());
                assert(ts4[w as int].constraints@.dom().contains(c));
            } else {
                assert(cons_of(ts4, i) == cons_of(ts0, i));
            }
        }
    }
    lemma_cons_from(ts0, ts4);
    if shape_eq(cty(ts0, a0), cty(ts0, b0)) {
        assert(heads_kept(ts0, ts4)) by {
            assert forall|i: int| 0 <= i < ts0.len() && !(#[trigger] cty(ts0, i) is Unknown) implies shape_eq(cty(ts0, i), cty(ts4, i)) by {
                lemma_rep0_props(ts0, i);
                if rep0(ts0, i) == rep0(ts0, a0) || rep0(ts0, i) == rep0(ts0, b0) {
                    assert(rep0(ts4, i) == w as int);
                    assert(ts4[w as int].ty == ts0[w as int].ty);
                    assert(w as int == rep0(ts0, a0) || w as int == rep0(ts0, b0));
                } else {
                    assert(rep0(ts4, i) == rep0(ts0, i));
                    assert(ts4[rep0(ts0, i)].ty == ts0[rep0(ts0, i)].ty);
                }
            }
        }
        lemma_heads_from(ts0, ts4);
    }
}

proof fn lemma_push(ts: Seq<TypeNode>, ts2: Seq<TypeNode>)
    requires
        wf_forest(ts), ts2.len() == ts.len() + 1,
        forall|i: int| 0 <= i < ts.len() ==> ts2[i] == ts[i],
        ts2[ts.len() as int].parent is None,
    ensures
        wf_forest(ts2),
        forall|i: int| 0 <= i < ts.len() ==> rep0(ts2, i) == rep0(ts, i),
        rep0(ts2, ts.len() as int) == ts.len(),
        sizes_inv(ts) && ts2[ts.len() as int].size == 1 ==> sizes_inv(ts2),
{
    if sizes_inv(ts) && ts2[ts.len() as int].size == 1 {
        lemma_sum_prefix(ts, ts2, ts.len() as int);
    }
    let h = the_h(ts);
    let h2 = h.push(0nat);
    assert(hok(ts2, h2)) by {
        assert forall|i: int| 0 <= i < ts2.len() implies match (#[trigger] ts2[i]).parent {
            Some(p) => (p.0 as int) < ts2.len() && h2[p.0 as int] < h2[i],
            None => true,
        } by {
            if i < ts.len() { assert(ts2[i] == ts[i]); }
        }
    }
    assert forall|i: int| 0 <= i < ts.len() implies rep0(ts2, i) == rep0(ts, i) by {
        lemma_rep_indep(ts2, the_h(ts2), h2, i);
        lemma_push_rep(ts, ts2, h, h2, i);
    }
    lemma_rep_props(ts2, the_h(ts2), ts.len() as int);
}
proof fn lemma_push_merges(ts: Seq<TypeNode>, ts2: Seq<TypeNode>)
    requires ts2.len() == ts.len() + 1, forall|i: int| 0 <= i < ts.len() ==> rep0(ts2, i) == rep0(ts, i),
    ensures merges_from(ts, ts2),
{
    assert(merges_only(ts, ts2)) by {
        assert forall|i: int, j: int| 0 <= i < ts.len() && 0 <= j < ts.len() && rep0(ts, i) == rep0(ts, j) implies #[trigger] rep0(ts2, i) == #[trigger] rep0(ts2, j) by {
            assert(rep0(ts2, i) == rep0(ts, i)); assert(rep0(ts2, j) == rep0(ts, j));
        }
    }
    lemma_merges_from(ts, ts2);
}
proof fn lemma_push_heads(ts: Seq<TypeNode>, ts2: Seq<TypeNode>)
    requires wf_forest(ts), ts2.len() == ts.len() + 1, forall|i: int| 0 <= i < ts.len() ==> ts2[i] == ts[i],
        forall|i: int| 0 <= i < ts.len() ==> rep0(ts2, i) == rep0(ts, i),
    ensures heads_from(ts, ts2),
{
    assert(heads_kept(ts, ts2)) by {
        assert forall|i: int| 0 <= i < ts.len() && !(#[trigger] cty(ts, i) is Unknown) implies shape_eq(cty(ts, i), cty(ts2, i)) by {
            lemma_rep0_props(ts, i);
            assert(rep0(ts2, i) == rep0(ts, i));
            assert(ts2[rep0(ts, i)] == ts[rep0(ts, i)]);
        }
    }
    lemma_heads_from(ts, ts2);
}
proof fn lemma_push_cons(ts: Seq<TypeNode>, ts2: Seq<TypeNode>)
    requires wf_forest(ts), ts2.len() == ts.len() + 1, forall|i: int| 0 <= i < ts.len() ==> ts2[i] == ts[i],
        forall|i: int| 0 <= i < ts.len() ==> rep0(ts2, i) == rep0(ts, i),
    ensures cons_from(ts, ts2),
{
    assert(cons_mono(ts, ts2)) by {
        assert forall|i: int, c: Constraint| 0 <= i < ts.len() && #[trigger] cons_of(ts, i).contains(c) implies cons_of(ts2, i).contains(c) by {
            lemma_rep0_props(ts, i);
            assert(rep0(ts2, i) == rep0(ts, i));
            assert(ts2[rep0(ts, i)] == ts[rep0(ts, i)]);
        }
    }
    lemma_cons_from(ts, ts2);
}
/// the sum over a common prefix of two sequences is the same
proof fn lemma_sum_prefix(a: Seq<TypeNode>, b: Seq<TypeNode>, n: int)
    requires 0 <= n <= a.len(), n <= b.len(), forall|i: int| 0 <= i < n ==> b[i] == a[i],
    ensures root_size_sum(b, n) == root_size_sum(a, n),
    decreases n
{
    if n > 0 { lemma_sum_prefix(a, b, n - 1); }
}
proof fn lemma_push_rep(ts: Seq<TypeNode>, ts2: Seq<TypeNode>, h: Seq<nat>, h2: Seq<nat>, i: int)
    requires
        hok(ts, h), hok(ts2, h2), ts2.len() == ts.len() + 1, h2 == h.push(0nat),
        forall|j: int| 0 <= j < ts.len() ==> ts2[j] == ts[j], 0 <= i < ts.len(),
    ensures rep(ts2, h2, i) == rep(ts, h, i)
    decreases h[i]
{
    match ts[i].parent {
        Some(p) => { lemma_push_rep(ts, ts2, h, h2, p.0 as int); }
        None => {}
    }
}

} // mod typechecker
} // verus!
fn main() {}
