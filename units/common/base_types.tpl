// ---- shared: placeholders and small types used by the compiler crates -------------------------
// D-types: opaque placeholders for types no function under contract inspects.
// the run-time type of sylt_common (real declaration: the resolver stores it in resolved types and the
// type checker matches on it)
pub mod rt {
    use super::*;
    use std::collections::{BTreeMap, BTreeSet};
//@ type sylt-common/src/ty.rs enum Type keep=- eq=none clone=ext
}
pub use rt::Type as RuntimeType;
#[verifier::external_body] pub struct FileOrLib { x: usize }
impl Clone for FileOrLib { #[verifier::external_body] fn clone(&self) -> (r: Self) ensures r == *self { unimplemented!() } }
// (derive(Hash, Eq, PartialEq) of the real type: opaque here, lawful by assumption where a table keyed by it is read)
impl core::hash::Hash for FileOrLib { #[verifier::external_body] fn hash<H: core::hash::Hasher>(&self, state: &mut H) { unimplemented!() } }
impl PartialEq for FileOrLib { #[verifier::external_body] fn eq(&self, other: &Self) -> (r: bool) ensures r == (*self == *other) { unimplemented!() } }
impl Eq for FileOrLib {}
// D-msg: errors are opaque values that remember the span they were built with (ghost accessor)
#[verifier::external_body] pub struct Error { x: usize }
impl Error { pub uninterp spec fn span(&self) -> Span; }
pub type NamespaceID = usize;
pub type Ref = usize;
//@ type sylt-tokenizer/src/tokenizer.rs struct Span keep=Copy clone=keep eq=none
//@ type sylt-common/src/lib.rs struct TyID keep=Copy,Eq,Hash,PartialOrd,Ord clone=keep eq=keep
// assumption: derive(PartialEq) on TyID is structural equality
impl PartialEqSpecImpl for TyID { open spec fn obeys_eq_spec() -> bool { true } open spec fn eq_spec(&self, other: &TyID) -> bool { *self == *other } }
//@ type sylt-parser/src/parser.rs enum VarKind keep=Copy clone=keep eq=keep
//@ type sylt-parser/src/parser.rs struct Identifier keep=- clone=ext
//@ type sylt-parser/src/parser.rs struct TypeConstraint eq=none
impl Span {
//@ fn sylt-tokenizer/src/tokenizer.rs zero
//@   in Span
//@   props C07
//@ end
}
impl VarKind {
//@ fn sylt-parser/src/parser.rs immutable
//@   in VarKind
//@   props C04 C07
//@   ret r
//@   spec
        ensures r == (*self is Const), //# C04 varkind.immutable_iff_const
//@   endspec
//@ end
}
