// ---- shared: the parser's AST (sylt-parser/src/{parser,expression,statement}.rs) -----------------
// (Identifier, VarKind, TypeConstraint come from the including unit)
//@ type sylt-parser/src/parser.rs enum Op keep=Copy clone=keep eq=keep
//@ type sylt-parser/src/parser.rs enum AssignableKind eq=none
//@ type sylt-parser/src/parser.rs struct Assignable
//@ type sylt-parser/src/parser.rs enum TypeAssignableKind eq=none
//@ type sylt-parser/src/parser.rs struct TypeAssignable eq=none
//@ type sylt-parser/src/parser.rs enum TypeKind eq=none
//@ type sylt-parser/src/parser.rs struct Type
//@ type sylt-parser/src/expression.rs enum ComparisonKind eq=none
//@ type sylt-parser/src/expression.rs struct CaseBranch eq=none
//@ type sylt-parser/src/expression.rs struct IfBranch eq=none
//@ type sylt-parser/src/expression.rs enum ExpressionKind eq=none
//@ type sylt-parser/src/expression.rs struct Expression
//@ type sylt-parser/src/statement.rs enum NameIdentifier eq=none
//@ type sylt-parser/src/statement.rs enum StatementKind eq=none
//@ type sylt-parser/src/statement.rs struct Statement
