// ---- shared: the parser's AST (sylt-parser/src/{parser,expression,statement}.rs) -----------------
// (Identifier, VarKind, TypeConstraint come from the including unit)
//@ type sylt-parser/src/parser.rs enum Op keep=Copy clone=keep eq=keep
//@ type sylt-parser/src/parser.rs enum AssignableKind eq=none
//@ type sylt-parser/src/parser.rs struct Assignable
//@ type sylt-parser/src/parser.rs enum TypeAssignableKind eq=none
//@ type sylt-parser/src/parser.rs struct TypeAssignable eq=none
//@ type sylt-parser/src/parser.rs enum TypeKind eq=none
//@ type sylt-parser/src/parser.rs struct Type
//@ type sylt-parser/src/expression.rs enum ComparisonKind eq=none
//@ type sylt-parser/src/expression.rs struct CaseBranch eq=none
//@ type sylt-parser/src/expression.rs struct IfBranch eq=none
//@ type sylt-parser/src/expression.rs enum ExpressionKind eq=none
//@ type sylt-parser/src/expression.rs struct Expression
//@ type sylt-parser/src/statement.rs enum NameIdentifier eq=none
//@ type sylt-parser/src/statement.rs enum StatementKind eq=none
//@ type sylt-parser/src/statement.rs struct Statement
//@ type sylt-parser/src/parser.rs struct Module eq=none
//@ type sylt-parser/src/parser.rs struct AST eq=none

// ---- shape facts the later phases rely on (C07): an index expression is an integer literal, an
// `if` has at least one branch. Deep predicates over the parser's AST.
pub open spec fn pe_shape(e: Expression) -> bool decreases e {
    match e.kind {
        ExpressionKind::Get(a) => pa_shape(a),
        ExpressionKind::Add(a, b) | ExpressionKind::Sub(a, b) | ExpressionKind::Mul(a, b) | ExpressionKind::Div(a, b)
        | ExpressionKind::AssertEq(a, b) | ExpressionKind::And(a, b) | ExpressionKind::Or(a, b) => pe_shape(*a) && pe_shape(*b),
        ExpressionKind::Comparison(a, _, b) => pe_shape(*a) && pe_shape(*b),
        ExpressionKind::Neg(a) | ExpressionKind::Not(a) | ExpressionKind::Parenthesis(a) => pe_shape(*a),
        ExpressionKind::If(branches) => branches.len() > 0 && forall|i: int| 0 <= i < branches.len() ==> pib_shape(#[trigger] branches[i]),
        ExpressionKind::Case { to_match, branches, fall_through } => pe_shape(*to_match)
            && (forall|i: int| 0 <= i < branches.len() ==> pcb_shape(#[trigger] branches[i]))
            && (match fall_through { Some(b) => forall|i: int| 0 <= i < b.len() ==> ps_shape(#[trigger] b[i]), None => true }),
        ExpressionKind::Function { params, ret, body, .. } => (forall|i: int| 0 <= i < body.len() ==> ps_shape(#[trigger] body[i]))
            && (forall|k: int| 0 <= k < params.len() ==> pt_ok((#[trigger] params[k]).1)) && pt_ok(ret),
        ExpressionKind::Blob { fields, .. } => forall|i: int| 0 <= i < fields.len() ==> pe_shape((#[trigger] fields[i]).1),
        ExpressionKind::Tuple(xs) => forall|i: int| 0 <= i < xs.len() ==> pe_shape(#[trigger] xs[i]),
        ExpressionKind::List(xs) => forall|i: int| 0 <= i < xs.len() ==> pe_shape(#[trigger] xs[i]),
        ExpressionKind::Float(_) | ExpressionKind::Int(_) | ExpressionKind::Str(_) | ExpressionKind::Bool(_) | ExpressionKind::Nil => true,
    }
}
pub open spec fn pa_shape(a: Assignable) -> bool decreases a {
    match a.kind {
        AssignableKind::Read(_) => true,
        AssignableKind::Variant { enum_ass, value, .. } => pa_shape(*enum_ass) && pe_shape(*value),
        AssignableKind::Call(f, args) => pa_shape(*f) && forall|i: int| 0 <= i < args.len() ==> pe_shape(#[trigger] args[i]),
        AssignableKind::ArrowCall(x, f, args) => pe_shape(*x) && pa_shape(*f) && forall|i: int| 0 <= i < args.len() ==> pe_shape(#[trigger] args[i]),
        AssignableKind::Access(a2, _) => pa_shape(*a2),
        AssignableKind::Index(a2, idx) => pa_shape(*a2) && idx.kind is Int,
        AssignableKind::Expression(e) => pe_shape(*e),
    }
}
pub open spec fn pib_shape(b: IfBranch) -> bool decreases b {
    (match b.condition { Some(c) => pe_shape(c), None => true }) && forall|i: int| 0 <= i < b.body.len() ==> ps_shape(#[trigger] b.body[i])
}
pub open spec fn pcb_shape(b: CaseBranch) -> bool decreases b {
    forall|i: int| 0 <= i < b.body.len() ==> ps_shape(#[trigger] b.body[i])
}
/// a written type whose `Resolved` parts are the seven primitive run-time types (all parse_type builds)
pub open spec fn pt_ok(t: Type) -> bool decreases t {
    match t.kind {
        TypeKind::Implied => true,
        TypeKind::Resolved(r) => r is Void || r is Nil || r is Unknown || r is Int || r is Float || r is Bool || r is String,
        TypeKind::UserDefined(_, gs) => forall|i: int| 0 <= i < gs.len() ==> pt_ok(#[trigger] gs[i]),
        TypeKind::Fn { params, ret, .. } => (forall|i: int| 0 <= i < params.len() ==> pt_ok(#[trigger] params[i])) && pt_ok(*ret),
        TypeKind::Tuple(gs) => forall|i: int| 0 <= i < gs.len() ==> pt_ok(#[trigger] gs[i]),
        TypeKind::List(t) => pt_ok(*t),
        TypeKind::Generic(_) => true,
        TypeKind::Grouping(t) => pt_ok(*t),
    }
}
pub open spec fn ps_shape(s: Statement) -> bool decreases s {
    match s.kind {
        StatementKind::Assignment { target, value, .. } => pa_shape(target) && pe_shape(value),
        StatementKind::Definition { ty, value, .. } => pe_shape(value) && pt_ok(ty),
        StatementKind::ExternalDefinition { ty, .. } => pt_ok(ty),
        StatementKind::Blob { fields, .. } => forall|k: Identifier| #[trigger] fields@.contains_key(k) ==> pt_ok(fields@[k]),
        StatementKind::Enum { variants, .. } => forall|k: Identifier| #[trigger] variants@.contains_key(k) ==> pt_ok(variants@[k]),
        StatementKind::Loop { condition, body } => pe_shape(condition) && ps_shape(*body),
        StatementKind::Ret { value } => match value { Some(v) => pe_shape(v), None => true },
        StatementKind::Block { statements } => forall|i: int| 0 <= i < statements.len() ==> ps_shape(#[trigger] statements[i]),
        StatementKind::StatementExpression { value } => pe_shape(value),
        _ => true,
    }
}
pub open spec fn pall_shape(ss: Seq<Statement>) -> bool { forall|i: int| 0 <= i < ss.len() ==> ps_shape(#[trigger] ss[i]) }
/// a top-level statement: what outer_statement can return
pub open spec fn top_kind(s: Statement) -> bool {
    s.kind is Blob || s.kind is Enum || s.kind is Definition || s.kind is ExternalDefinition
        || s.kind is Use || s.kind is FromUse || s.kind is EmptyStatement
}
/// what the later phases require of the statements of a module: top-level kinds with the parser shape
pub open spec fn all_top(ss: Seq<Statement>) -> bool { forall|j: int| 0 <= j < ss.len() ==> ps_shape(#[trigger] ss[j]) && top_kind(ss[j]) }
pub open spec fn module_ok(m: Module) -> bool { all_top(m.statements@) }
pub open spec fn modules_ok(ms: Seq<(FileOrLib, Module)>) -> bool { forall|i: int| 0 <= i < ms.len() ==> module_ok((#[trigger] ms[i]).1) }
