// ---- shared: the resolver's output AST (sylt-compiler/src/name_resolution.rs) -------------------
//@ type sylt-compiler/src/name_resolution.rs enum BinOp eq=none
//@ type sylt-compiler/src/name_resolution.rs enum UniOp eq=none
//@ type sylt-compiler/src/name_resolution.rs enum Collection eq=none
//@ type sylt-compiler/src/name_resolution.rs struct IfBranch eq=none
//@ type sylt-compiler/src/name_resolution.rs struct CaseBranch eq=none
//@ type sylt-compiler/src/name_resolution.rs enum Expression eq=none
//@ type sylt-compiler/src/name_resolution.rs enum Type eq=none
//@ type sylt-compiler/src/name_resolution.rs enum Statement eq=none
//@ type sylt-compiler/src/name_resolution.rs struct Var eq=none
impl Expression {
//@ fn sylt-compiler/src/name_resolution.rs span
//@   in Expression
//@   props C07
//@ end
}
impl Statement {
//@ fn sylt-compiler/src/name_resolution.rs span
//@   in Statement
//@   props C07
//@ end
}
impl Type {
//@ fn sylt-compiler/src/name_resolution.rs span
//@   in Type
//@   props C07
//@ end
//@ fn sylt-compiler/src/name_resolution.rs is_void
//@   in Type
//@   props C03 C07
//@   ret r
//@   spec
        ensures r == (*self is Resolved && self->Resolved_0 is Void), //# C03 rtype.is_void_exact
//@   endspec
//@ end
}

// ---- phase contracts between the resolver and the type checker (shared by U-RESOLVE and U-TC) ----
/// no declaration statement (blob / enum / external) anywhere in a resolved tree: the type
/// checker's `statement` treats those as unreachable!("Illegal inner statement")
pub open spec fn e_nodecl(e: Expression) -> bool decreases e {
    match e {
        Expression::Read { .. } => true,
        Expression::Variant { value, .. } => e_nodecl(*value),
        Expression::Call { function, args, .. } => e_nodecl(*function) && forall|i: int| 0 <= i < args.len() ==> e_nodecl(#[trigger] args[i]),
        Expression::BlobAccess { value, .. } => e_nodecl(*value),
        Expression::Index { value, index, .. } => e_nodecl(*value) && e_nodecl(*index),
        Expression::BinOp { a, b, .. } => e_nodecl(*a) && e_nodecl(*b),
        Expression::UniOp { a, .. } => e_nodecl(*a),
        Expression::If { branches, .. } => forall|i: int| 0 <= i < branches.len() ==> ib_nodecl(#[trigger] branches[i]),
        Expression::Case { to_match, branches, fall_through, .. } => e_nodecl(*to_match)
            && (forall|i: int| 0 <= i < branches.len() ==> cb_nodecl(#[trigger] branches[i]))
            && (match fall_through { Some(b) => forall|i: int| 0 <= i < b.len() ==> s_nodecl(#[trigger] b[i]), None => true }),
        Expression::Function { body, .. } => forall|i: int| 0 <= i < body.len() ==> s_nodecl(#[trigger] body[i]),
        Expression::Blob { fields, .. } => forall|i: int| 0 <= i < fields.len() ==> e_nodecl((#[trigger] fields[i]).1),
        Expression::Collection { values, .. } => forall|i: int| 0 <= i < values.len() ==> e_nodecl(#[trigger] values[i]),
        Expression::Float(..) | Expression::Int(..) | Expression::Str(..) | Expression::Bool(..) | Expression::Nil(..) => true,
    }
}
pub open spec fn ib_nodecl(b: IfBranch) -> bool decreases b {
    (match b.condition { Some(c) => e_nodecl(c), None => true })
    && forall|i: int| 0 <= i < b.body.len() ==> s_nodecl(#[trigger] b.body[i])
}
pub open spec fn cb_nodecl(b: CaseBranch) -> bool decreases b {
    forall|i: int| 0 <= i < b.body.len() ==> s_nodecl(#[trigger] b.body[i])
}
pub open spec fn s_nodecl(s: Statement) -> bool decreases s {
    match s {
        Statement::Assignment { target, value, .. } => e_nodecl(target) && e_nodecl(value),
        Statement::Blob { .. } | Statement::Enum { .. } | Statement::ExternalDefinition { .. } => false,
        Statement::Definition { value, .. } => e_nodecl(value),
        Statement::Loop { condition, body, .. } => e_nodecl(condition) && forall|i: int| 0 <= i < body.len() ==> s_nodecl(#[trigger] body[i]),
        Statement::Break(_) | Statement::Continue(_) | Statement::Unreachable(_) => true,
        Statement::Ret { value, .. } => match value { Some(v) => e_nodecl(v), None => true },
        Statement::Block { statements, .. } => forall|i: int| 0 <= i < statements.len() ==> s_nodecl(#[trigger] statements[i]),
        Statement::StatementExpression { value, .. } => e_nodecl(value),
    }
}

/// a resolved type the type checker can translate: a `Resolved` run-time type is one of the seven
/// primitive ones (its `unreachable!` for the others), a user type names a variable below n
pub open spec fn rt_ok(t: Type, n: int) -> bool decreases t {
    match t {
        Type::UserType(var, vars, _) => var < n && forall|i: int| 0 <= i < vars.len() ==> rt_ok(#[trigger] vars[i], n),
        Type::Implied(_) => true,
        Type::Resolved(r, _) => r is Void || r is Nil || r is Unknown || r is Int || r is Float || r is Bool || r is String,
        Type::Generic(..) => true,
        Type::Tuple(fields, _) => forall|i: int| 0 <= i < fields.len() ==> rt_ok(#[trigger] fields[i], n),
        Type::List(kind, _) => rt_ok(*kind, n),
        Type::Fn { params, ret, .. } => (forall|i: int| 0 <= i < params.len() ==> rt_ok(#[trigger] params[i], n)) && rt_ok(*ret, n),
    }
}
pub proof fn lemma_rt_ok_mono(t: Type, n: int, m: int)
    requires rt_ok(t, n), n <= m,
    ensures rt_ok(t, m),
    decreases t
{
    match t {
        Type::UserType(var, vars, _) => { assert forall|i: int| 0 <= i < vars.len() implies rt_ok(#[trigger] vars[i], m) by { lemma_rt_ok_mono(vars[i], n, m); } }
        Type::Tuple(fields, _) => { assert forall|i: int| 0 <= i < fields.len() implies rt_ok(#[trigger] fields[i], m) by { lemma_rt_ok_mono(fields[i], n, m); } }
        Type::List(kind, _) => { lemma_rt_ok_mono(*kind, n, m); }
        Type::Fn { params, ret, .. } => {
            assert forall|i: int| 0 <= i < params.len() implies rt_ok(#[trigger] params[i], m) by { lemma_rt_ok_mono(params[i], n, m); }
            lemma_rt_ok_mono(*ret, n, m);
        }
        _ => {}
    }
}
pub open spec fn rt_up(t: Type, n: int) -> bool { forall|m: int| m >= n ==> #[trigger] rt_ok(t, m) }
pub proof fn lemma_rt_up(t: Type, n: int)
    requires rt_ok(t, n),
    ensures rt_up(t, n),
{ assert forall|m: int| m >= n implies #[trigger] rt_ok(t, m) by { lemma_rt_ok_mono(t, n, m); } }
// constructor lemmas for rt_up (broadcast: they fire on the constructed value)
pub broadcast proof fn lemma_rt_up_user(var: Ref, vars: Vec<Type>, span: Span, n: int)
    requires var < n, forall|i: int| 0 <= i < vars@.len() ==> rt_up(#[trigger] vars@[i], n),
    ensures #[trigger] rt_up(Type::UserType(var, vars, span), n),
{ assert forall|m: int| m >= n implies #[trigger] rt_ok(Type::UserType(var, vars, span), m) by {
    assert forall|i: int| 0 <= i < vars.len() implies rt_ok(#[trigger] vars[i], m) by { assert(rt_up(vars@[i], n)); } } }
pub broadcast proof fn lemma_rt_up_leaf(t: Type, n: int)
    requires t is Implied || t is Generic || (t is Resolved && (t->Resolved_0 is Void || t->Resolved_0 is Nil || t->Resolved_0 is Unknown || t->Resolved_0 is Int
        || t->Resolved_0 is Float || t->Resolved_0 is Bool || t->Resolved_0 is String)),
    ensures #[trigger] rt_up(t, n),
{ assert forall|m: int| m >= n implies #[trigger] rt_ok(t, m) by {} }
pub broadcast proof fn lemma_rt_up_tuple(fields: Vec<Type>, span: Span, n: int)
    requires forall|i: int| 0 <= i < fields@.len() ==> rt_up(#[trigger] fields@[i], n),
    ensures #[trigger] rt_up(Type::Tuple(fields, span), n),
{ assert forall|m: int| m >= n implies #[trigger] rt_ok(Type::Tuple(fields, span), m) by {
    assert forall|i: int| 0 <= i < fields.len() implies rt_ok(#[trigger] fields[i], m) by { assert(rt_up(fields@[i], n)); } } }
pub broadcast proof fn lemma_rt_up_list(kind: Box<Type>, span: Span, n: int)
    requires rt_up(*kind, n),
    ensures #[trigger] rt_up(Type::List(kind, span), n),
{ assert forall|m: int| m >= n implies #[trigger] rt_ok(Type::List(kind, span), m) by { assert(rt_ok(*kind, m)); } }
pub broadcast proof fn lemma_rt_up_fn(constraints: BTreeMap<String, Vec<TypeConstraint>>, params: Vec<Type>, ret: Box<Type>, is_pure: bool, span: Span, n: int)
    requires forall|i: int| 0 <= i < params@.len() ==> rt_up(#[trigger] params@[i], n), rt_up(*ret, n),
    ensures #[trigger] rt_up(Type::Fn { constraints, params, ret, is_pure, span }, n),
{ assert forall|m: int| m >= n implies #[trigger] rt_ok(Type::Fn { constraints, params, ret, is_pure, span }, m) by {
    assert forall|i: int| 0 <= i < params.len() implies rt_ok(#[trigger] params[i], m) by { assert(rt_up(params@[i], n)); }
    assert(rt_ok(*ret, m)); } }
pub broadcast group group_rt_up { lemma_rt_up_user, lemma_rt_up_leaf, lemma_rt_up_tuple, lemma_rt_up_list, lemma_rt_up_fn }
/// every variable id mentioned anywhere in a resolved tree is below n (i.e. an index of the
/// variable table) - the phase contract between the resolver and the type checker
pub open spec fn e_below(e: Expression, n: int) -> bool decreases e {
    match e {
        Expression::Read { var, .. } => var < n,
        Expression::Variant { ty, value, .. } => ty < n && e_below(*value, n),
        Expression::Call { function, args, .. } => e_below(*function, n) && forall|i: int| 0 <= i < args.len() ==> e_below(#[trigger] args[i], n),
        Expression::BlobAccess { value, .. } => e_below(*value, n),
        Expression::Index { value, index, .. } => e_below(*value, n) && e_below(*index, n),
        Expression::BinOp { a, b, .. } => e_below(*a, n) && e_below(*b, n),
        Expression::UniOp { a, .. } => e_below(*a, n),
        Expression::If { branches, .. } => forall|i: int| 0 <= i < branches.len() ==> ib_below(#[trigger] branches[i], n),
        Expression::Case { to_match, branches, fall_through, .. } => e_below(*to_match, n)
            && (forall|i: int| 0 <= i < branches.len() ==> cb_below(#[trigger] branches[i], n))
            && (match fall_through { Some(b) => forall|i: int| 0 <= i < b.len() ==> s_below(#[trigger] b[i], n), None => true }),
        Expression::Function { params, ret, body, .. } => (forall|k: int| 0 <= k < params.len() ==> (#[trigger] params[k]).1 < n && rt_ok(params[k].3, n))
            && rt_ok(ret, n)
            && forall|i: int| 0 <= i < body.len() ==> s_below(#[trigger] body[i], n),
        Expression::Blob { blob, fields, self_var, .. } => blob < n && self_var < n
            && forall|i: int| 0 <= i < fields.len() ==> e_below((#[trigger] fields[i]).1, n),
        Expression::Collection { values, .. } => forall|i: int| 0 <= i < values.len() ==> e_below(#[trigger] values[i], n),
        Expression::Float(..) | Expression::Int(..) | Expression::Str(..) | Expression::Bool(..) | Expression::Nil(..) => true,
    }
}
pub open spec fn ib_below(b: IfBranch, n: int) -> bool decreases b {
    (match b.condition { Some(c) => e_below(c, n), None => true })
    && forall|i: int| 0 <= i < b.body.len() ==> s_below(#[trigger] b.body[i], n)
}
pub open spec fn cb_below(b: CaseBranch, n: int) -> bool decreases b {
    (match b.variable { Some(v) => v < n, None => true })
    && forall|i: int| 0 <= i < b.body.len() ==> s_below(#[trigger] b.body[i], n)
}
pub open spec fn s_below(s: Statement, n: int) -> bool decreases s {
    match s {
        Statement::Assignment { target, value, .. } => e_below(target, n) && e_below(value, n),
        Statement::Blob { var, .. } | Statement::Enum { var, .. } => var < n,
        Statement::ExternalDefinition { var, ty, .. } => var < n && rt_ok(ty, n),
        Statement::Definition { var, ty, value, .. } => var < n && rt_ok(ty, n) && e_below(value, n),
        Statement::Loop { condition, body, .. } => e_below(condition, n) && forall|i: int| 0 <= i < body.len() ==> s_below(#[trigger] body[i], n),
        Statement::Break(_) | Statement::Continue(_) | Statement::Unreachable(_) => true,
        Statement::Ret { value, .. } => match value { Some(v) => e_below(v, n), None => true },
        Statement::Block { statements, .. } => forall|i: int| 0 <= i < statements.len() ==> s_below(#[trigger] statements[i], n),
        Statement::StatementExpression { value, .. } => e_below(value, n),
    }
}
pub open spec fn all_below(ss: Seq<Statement>, n: int) -> bool { forall|i: int| 0 <= i < ss.len() ==> s_below(#[trigger] ss[i], n) }

/// monotonicity: ids below n are below every m >= n (structural induction over the four AST types)
pub proof fn lemma_e_below_mono(e: Expression, n: int, m: int)
    requires e_below(e, n), n <= m,
    ensures e_below(e, m),
    decreases e
{
    match e {
        Expression::Variant { value, .. } => { lemma_e_below_mono(*value, n, m); }
        Expression::Call { function, args, .. } => {
            lemma_e_below_mono(*function, n, m);
            assert forall|i: int| 0 <= i < args.len() implies e_below(#[trigger] args[i], m) by { lemma_e_below_mono(args[i], n, m); }
        }
        Expression::BlobAccess { value, .. } => { lemma_e_below_mono(*value, n, m); }
        Expression::Index { value, index, .. } => { lemma_e_below_mono(*value, n, m); lemma_e_below_mono(*index, n, m); }
        Expression::BinOp { a, b, .. } => { lemma_e_below_mono(*a, n, m); lemma_e_below_mono(*b, n, m); }
        Expression::UniOp { a, .. } => { lemma_e_below_mono(*a, n, m); }
        Expression::If { branches, .. } => {
            assert forall|i: int| 0 <= i < branches.len() implies ib_below(#[trigger] branches[i], m) by { lemma_ib_below_mono(branches[i], n, m); }
        }
        Expression::Case { to_match, branches, fall_through, .. } => {
            lemma_e_below_mono(*to_match, n, m);
            assert forall|i: int| 0 <= i < branches.len() implies cb_below(#[trigger] branches[i], m) by { lemma_cb_below_mono(branches[i], n, m); }
            match fall_through {
                Some(b) => { assert forall|i: int| 0 <= i < b.len() implies s_below(#[trigger] b[i], m) by { lemma_s_below_mono(b[i], n, m); } }
                None => {}
            }
        }
        Expression::Function { params, ret, body, .. } => {
            assert forall|i: int| 0 <= i < body.len() implies s_below(#[trigger] body[i], m) by { lemma_s_below_mono(body[i], n, m); }
            assert forall|k: int| 0 <= k < params.len() implies (#[trigger] params[k]).1 < m && rt_ok(params[k].3, m) by { lemma_rt_ok_mono(params[k].3, n, m); }
            lemma_rt_ok_mono(ret, n, m);
        }
        Expression::Blob { fields, .. } => {
            assert forall|i: int| 0 <= i < fields.len() implies e_below((#[trigger] fields[i]).1, m) by { lemma_e_below_mono(fields[i].1, n, m); }
        }
        Expression::Collection { values, .. } => {
            assert forall|i: int| 0 <= i < values.len() implies e_below(#[trigger] values[i], m) by { lemma_e_below_mono(values[i], n, m); }
        }
        _ => {}
    }
}
pub proof fn lemma_ib_below_mono(b: IfBranch, n: int, m: int)
    requires ib_below(b, n), n <= m,
    ensures ib_below(b, m),
    decreases b
{
    match b.condition { Some(c) => { lemma_e_below_mono(c, n, m); } None => {} }
    assert forall|i: int| 0 <= i < b.body.len() implies s_below(#[trigger] b.body[i], m) by { lemma_s_below_mono(b.body[i], n, m); }
}
pub proof fn lemma_cb_below_mono(b: CaseBranch, n: int, m: int)
    requires cb_below(b, n), n <= m,
    ensures cb_below(b, m),
    decreases b
{
    assert forall|i: int| 0 <= i < b.body.len() implies s_below(#[trigger] b.body[i], m) by { lemma_s_below_mono(b.body[i], n, m); }
}
pub proof fn lemma_s_below_mono(s: Statement, n: int, m: int)
    requires s_below(s, n), n <= m,
    ensures s_below(s, m),
    decreases s
{
    match s {
        Statement::Assignment { target, value, .. } => { lemma_e_below_mono(target, n, m); lemma_e_below_mono(value, n, m); }
        Statement::Definition { ty, value, .. } => { lemma_e_below_mono(value, n, m); lemma_rt_ok_mono(ty, n, m); }
        Statement::ExternalDefinition { ty, .. } => { lemma_rt_ok_mono(ty, n, m); }
        Statement::Loop { condition, body, .. } => {
            lemma_e_below_mono(condition, n, m);
            assert forall|i: int| 0 <= i < body.len() implies s_below(#[trigger] body[i], m) by { lemma_s_below_mono(body[i], n, m); }
        }
        Statement::Ret { value, .. } => { match value { Some(v) => { lemma_e_below_mono(v, n, m); } None => {} } }
        Statement::Block { statements, .. } => {
            assert forall|i: int| 0 <= i < statements.len() implies s_below(#[trigger] statements[i], m) by { lemma_s_below_mono(statements[i], n, m); }
        }
        Statement::StatementExpression { value, .. } => { lemma_e_below_mono(value, n, m); }
        _ => {}
    }
}

/// shapes the type checker relies on without checking (its unreachable!/unwrap sites): a binary
/// operation is never `Nop`, a constant index is an integer literal, an `if` has at least one branch
pub open spec fn e_shape(e: Expression) -> bool decreases e {
    match e {
        Expression::Read { .. } => true,
        Expression::Variant { value, .. } => e_shape(*value),
        Expression::Call { function, args, .. } => e_shape(*function) && forall|i: int| 0 <= i < args.len() ==> e_shape(#[trigger] args[i]),
        Expression::BlobAccess { value, .. } => e_shape(*value),
        Expression::Index { value, index, .. } => e_shape(*value) && *index is Int,
        Expression::BinOp { a, b, op, .. } => !(op is Nop) && e_shape(*a) && e_shape(*b),
        Expression::UniOp { a, .. } => e_shape(*a),
        Expression::If { branches, .. } => branches.len() > 0 && forall|i: int| 0 <= i < branches.len() ==> ib_shape(#[trigger] branches[i]),
        Expression::Case { to_match, branches, fall_through, .. } => e_shape(*to_match)
            && (forall|i: int| 0 <= i < branches.len() ==> cb_shape(#[trigger] branches[i]))
            && (match fall_through { Some(b) => forall|i: int| 0 <= i < b.len() ==> s_shape(#[trigger] b[i]), None => true }),
        Expression::Function { body, .. } => forall|i: int| 0 <= i < body.len() ==> s_shape(#[trigger] body[i]),
        Expression::Blob { fields, .. } => forall|i: int| 0 <= i < fields.len() ==> e_shape((#[trigger] fields[i]).1),
        Expression::Collection { values, .. } => forall|i: int| 0 <= i < values.len() ==> e_shape(#[trigger] values[i]),
        Expression::Float(..) | Expression::Int(..) | Expression::Str(..) | Expression::Bool(..) | Expression::Nil(..) => true,
    }
}
pub open spec fn ib_shape(b: IfBranch) -> bool decreases b {
    (match b.condition { Some(c) => e_shape(c), None => true })
    && forall|i: int| 0 <= i < b.body.len() ==> s_shape(#[trigger] b.body[i])
}
pub open spec fn cb_shape(b: CaseBranch) -> bool decreases b {
    forall|i: int| 0 <= i < b.body.len() ==> s_shape(#[trigger] b.body[i])
}
pub open spec fn s_shape(s: Statement) -> bool decreases s {
    match s {
        Statement::Assignment { target, value, .. } => e_shape(target) && e_shape(value),
        Statement::Blob { .. } | Statement::Enum { .. } | Statement::ExternalDefinition { .. } => true,
        Statement::Definition { value, .. } => e_shape(value),
        Statement::Loop { condition, body, .. } => e_shape(condition) && forall|i: int| 0 <= i < body.len() ==> s_shape(#[trigger] body[i]),
        Statement::Break(_) | Statement::Continue(_) | Statement::Unreachable(_) => true,
        Statement::Ret { value, .. } => match value { Some(v) => e_shape(v), None => true },
        Statement::Block { statements, .. } => forall|i: int| 0 <= i < statements.len() ==> s_shape(#[trigger] statements[i]),
        Statement::StatementExpression { value, .. } => e_shape(value),
    }
}
/// the complete phase precondition of the type checker on a resolved tree
pub open spec fn e_ok(e: Expression, n: int) -> bool { e_below(e, n) && e_nodecl(e) && e_shape(e) }
pub open spec fn s_ok(s: Statement, n: int) -> bool { s_below(s, n) && s_nodecl(s) && s_shape(s) }
pub open spec fn all_ok(ss: Seq<Statement>, n: int) -> bool { forall|i: int| 0 <= i < ss.len() ==> s_ok(#[trigger] ss[i], n) }
/// what the type checker expects of a TOP-LEVEL statement: a declaration (whose variable id is in
/// range) or a definition (well formed as any inner statement)
pub open spec fn os_ok(s: Statement, n: int) -> bool {
    match s {
        Statement::Enum { var, variants, .. } => var < n && forall|k: String| #[trigger] variants@.contains_key(k) ==> rt_ok(variants@[k].1, n),
        Statement::Blob { var, fields, .. } => var < n && forall|k: String| #[trigger] fields@.contains_key(k) ==> rt_ok(fields@[k].1, n),
        Statement::ExternalDefinition { var, ty, .. } => var < n && rt_ok(ty, n),
        Statement::Definition { .. } => s_ok(s, n),
        _ => false,
    }
}

/// one-level view of e_ok (non-recursive): what the children of a well-formed node satisfy. Functions
/// with many arms hide the recursive predicates and use this through lemma_e_ok_children instead.
pub open spec fn ib_ok(b: IfBranch, n: int) -> bool { (b.condition is Some ==> e_ok(b.condition->Some_0, n)) && all_ok(b.body@, n) }
pub open spec fn cb_ok(b: CaseBranch, n: int) -> bool { (b.variable is Some ==> b.variable->Some_0 < n) && all_ok(b.body@, n) }
pub open spec fn e_ok_children(e: Expression, n: int) -> bool {
    match e {
        Expression::Read { var, .. } => var < n,
        Expression::Variant { ty, value, .. } => ty < n && e_ok(*value, n),
        Expression::Call { function, args, .. } => e_ok(*function, n) && forall|i: int| 0 <= i < args@.len() ==> e_ok(#[trigger] args@[i], n),
        Expression::BlobAccess { value, .. } => e_ok(*value, n),
        Expression::Index { value, index, .. } => e_ok(*value, n) && e_ok(*index, n) && *index is Int,
        Expression::BinOp { a, b, op, .. } => !(op is Nop) && e_ok(*a, n) && e_ok(*b, n),
        Expression::UniOp { a, .. } => e_ok(*a, n),
        Expression::If { branches, .. } => branches@.len() > 0 && forall|i: int| 0 <= i < branches@.len() ==> ib_ok(#[trigger] branches@[i], n),
        Expression::Case { to_match, branches, fall_through, .. } => e_ok(*to_match, n)
            && (forall|i: int| 0 <= i < branches@.len() ==> cb_ok(#[trigger] branches@[i], n))
            && (fall_through is Some ==> all_ok(fall_through->Some_0@, n)),
        Expression::Function { params, ret, body, .. } => (forall|k: int| 0 <= k < params@.len() ==> (#[trigger] params@[k]).1 < n && rt_ok(params@[k].3, n)) && rt_ok(ret, n) && all_ok(body@, n),
        Expression::Blob { blob, fields, self_var, .. } => blob < n && self_var < n && forall|i: int| 0 <= i < fields@.len() ==> e_ok((#[trigger] fields@[i]).1, n),
        Expression::Collection { values, .. } => forall|i: int| 0 <= i < values@.len() ==> e_ok(#[trigger] values@[i], n),
        Expression::Float(..) | Expression::Int(..) | Expression::Str(..) | Expression::Bool(..) | Expression::Nil(..) => true,
    }
}
pub proof fn lemma_e_ok_children(e: Expression, n: int)
    requires e_ok(e, n),
    ensures e_ok_children(e, n),
{
    match e {
        Expression::If { branches, .. } => {
            assert forall|i: int| 0 <= i < branches@.len() implies ib_ok(#[trigger] branches@[i], n) by {
                assert(ib_below(branches[i], n)); assert(ib_nodecl(branches[i])); assert(ib_shape(branches[i]));
            }
        }
        Expression::Case { branches, fall_through, .. } => {
            assert forall|i: int| 0 <= i < branches@.len() implies cb_ok(#[trigger] branches@[i], n) by {
                assert(cb_below(branches[i], n)); assert(cb_nodecl(branches[i])); assert(cb_shape(branches[i]));
            }
        }
        _ => {}
    }
}

/// upward-closed forms ("below every m >= n"): monotone in n by construction, which is what the
/// resolver needs while its variable table grows during a traversal
pub open spec fn e_up(e: Expression, n: int) -> bool { forall|m: int| m >= n ==> #[trigger] e_below(e, m) }
pub open spec fn ib_up(b: IfBranch, n: int) -> bool { forall|m: int| m >= n ==> #[trigger] ib_below(b, m) }
pub open spec fn cb_up(b: CaseBranch, n: int) -> bool { forall|m: int| m >= n ==> #[trigger] cb_below(b, m) }
pub open spec fn s_up(s: Statement, n: int) -> bool { forall|m: int| m >= n ==> #[trigger] s_below(s, m) }
pub open spec fn all_up(ss: Seq<Statement>, n: int) -> bool { forall|i: int| 0 <= i < ss.len() ==> s_up(#[trigger] ss[i], n) }

// ---- constructor lemmas for the upward-closed predicates (broadcast: they fire on the constructed
// value; needed because the verifier does not unfold a recursive spec function under the `forall m`)
pub broadcast proof fn lemma_up_read(var: Ref, span: Span, n: int)
    requires var < n,
    ensures #[trigger] e_up(Expression::Read { var, span }, n),
{ assert forall|m: int| m >= n implies #[trigger] e_below(Expression::Read { var, span }, m) by {} }
pub broadcast proof fn lemma_up_variant(ty: Ref, variant: String, value: Box<Expression>, span: Span, n: int)
    requires ty < n, e_up(*value, n),
    ensures #[trigger] e_up(Expression::Variant { ty, variant, value, span }, n),
{ assert forall|m: int| m >= n implies #[trigger] e_below(Expression::Variant { ty, variant, value, span }, m) by { assert(e_below(*value, m)); } }
pub broadcast proof fn lemma_up_call(function: Box<Expression>, args: Vec<Expression>, span: Span, n: int)
    requires e_up(*function, n), forall|i: int| 0 <= i < args@.len() ==> e_up(#[trigger] args@[i], n),
    ensures #[trigger] e_up(Expression::Call { function, args, span }, n),
{
    assert forall|m: int| m >= n implies #[trigger] e_below(Expression::Call { function, args, span }, m) by {
        assert(e_below(*function, m));
        assert forall|i: int| 0 <= i < args.len() implies e_below(#[trigger] args[i], m) by { assert(e_up(args@[i], n)); }
    }
}
pub broadcast proof fn lemma_up_blobaccess(value: Box<Expression>, field: String, span: Span, n: int)
    requires e_up(*value, n),
    ensures #[trigger] e_up(Expression::BlobAccess { value, field, span }, n),
{ assert forall|m: int| m >= n implies #[trigger] e_below(Expression::BlobAccess { value, field, span }, m) by { assert(e_below(*value, m)); } }
pub broadcast proof fn lemma_up_index(value: Box<Expression>, index: Box<Expression>, span: Span, n: int)
    requires e_up(*value, n), e_up(*index, n),
    ensures #[trigger] e_up(Expression::Index { value, index, span }, n),
{ assert forall|m: int| m >= n implies #[trigger] e_below(Expression::Index { value, index, span }, m) by { assert(e_below(*value, m)); assert(e_below(*index, m)); } }
pub broadcast proof fn lemma_up_binop(a: Box<Expression>, b: Box<Expression>, op: BinOp, span: Span, n: int)
    requires e_up(*a, n), e_up(*b, n),
    ensures #[trigger] e_up(Expression::BinOp { a, b, op, span }, n),
{ assert forall|m: int| m >= n implies #[trigger] e_below(Expression::BinOp { a, b, op, span }, m) by { assert(e_below(*a, m)); assert(e_below(*b, m)); } }
pub broadcast proof fn lemma_up_uniop(a: Box<Expression>, op: UniOp, span: Span, n: int)
    requires e_up(*a, n),
    ensures #[trigger] e_up(Expression::UniOp { a, op, span }, n),
{ assert forall|m: int| m >= n implies #[trigger] e_below(Expression::UniOp { a, op, span }, m) by { assert(e_below(*a, m)); } }
pub broadcast proof fn lemma_up_if(branches: Vec<IfBranch>, span: Span, n: int)
    requires forall|i: int| 0 <= i < branches@.len() ==> ib_up(#[trigger] branches@[i], n),
    ensures #[trigger] e_up(Expression::If { branches, span }, n),
{
    assert forall|m: int| m >= n implies #[trigger] e_below(Expression::If { branches, span }, m) by {
        assert forall|i: int| 0 <= i < branches.len() implies ib_below(#[trigger] branches[i], m) by { assert(ib_up(branches@[i], n)); }
    }
}
pub broadcast proof fn lemma_up_case(to_match: Box<Expression>, branches: Vec<CaseBranch>, fall_through: Option<Vec<Statement>>, span: Span, n: int)
    requires e_up(*to_match, n), forall|i: int| 0 <= i < branches@.len() ==> cb_up(#[trigger] branches@[i], n),
        fall_through is Some ==> all_up(fall_through->Some_0@, n),
    ensures #[trigger] e_up(Expression::Case { to_match, branches, fall_through, span }, n),
{
    assert forall|m: int| m >= n implies #[trigger] e_below(Expression::Case { to_match, branches, fall_through, span }, m) by {
        assert(e_below(*to_match, m));
        assert forall|i: int| 0 <= i < branches.len() implies cb_below(#[trigger] branches[i], m) by { assert(cb_up(branches@[i], n)); }
        match fall_through {
            Some(b) => { assert forall|i: int| 0 <= i < b.len() implies s_below(#[trigger] b[i], m) by { assert(s_up(b@[i], n)); } }
            None => {}
        }
    }
}
pub broadcast proof fn lemma_up_function(name: String, params: Vec<(String, Ref, Span, Type)>, ret: Type, body: Vec<Statement>, pure: bool, span: Span, n: int)
    requires forall|k: int| 0 <= k < params@.len() ==> (#[trigger] params@[k]).1 < n && rt_up(params@[k].3, n), rt_up(ret, n), all_up(body@, n),
    ensures #[trigger] e_up(Expression::Function { name, params, ret, body, pure, span }, n),
{
    assert forall|m: int| m >= n implies #[trigger] e_below(Expression::Function { name, params, ret, body, pure, span }, m) by {
        assert forall|i: int| 0 <= i < body.len() implies s_below(#[trigger] body[i], m) by { assert(s_up(body@[i], n)); }
        assert forall|k: int| 0 <= k < params.len() implies (#[trigger] params[k]).1 < m && rt_ok(params[k].3, m) by { assert(rt_up(params@[k].3, n)); }
        assert(rt_ok(ret, m));
    }
}
pub broadcast proof fn lemma_up_blob(blob: Ref, fields: Vec<(String, Expression)>, self_var: Ref, span: Span, n: int)
    requires blob < n, self_var < n, forall|i: int| 0 <= i < fields@.len() ==> e_up((#[trigger] fields@[i]).1, n),
    ensures #[trigger] e_up(Expression::Blob { blob, fields, self_var, span }, n),
{
    assert forall|m: int| m >= n implies #[trigger] e_below(Expression::Blob { blob, fields, self_var, span }, m) by {
        assert forall|i: int| 0 <= i < fields.len() implies e_below((#[trigger] fields[i]).1, m) by { assert(e_up(fields@[i].1, n)); }
    }
}
pub broadcast proof fn lemma_up_collection(collection: Collection, values: Vec<Expression>, span: Span, n: int)
    requires forall|i: int| 0 <= i < values@.len() ==> e_up(#[trigger] values@[i], n),
    ensures #[trigger] e_up(Expression::Collection { collection, values, span }, n),
{
    assert forall|m: int| m >= n implies #[trigger] e_below(Expression::Collection { collection, values, span }, m) by {
        assert forall|i: int| 0 <= i < values.len() implies e_below(#[trigger] values[i], m) by { assert(e_up(values@[i], n)); }
    }
}
pub broadcast proof fn lemma_up_literals(e: Expression, n: int)
    requires e is Float || e is Int || e is Str || e is Bool || e is Nil,
    ensures #[trigger] e_up(e, n),
{ assert forall|m: int| m >= n implies #[trigger] e_below(e, m) by {} }
pub broadcast proof fn lemma_up_ifbranch(condition: Option<Expression>, body: Vec<Statement>, span: Span, n: int)
    requires condition is Some ==> e_up(condition->Some_0, n), all_up(body@, n),
    ensures #[trigger] ib_up(IfBranch { condition, body, span }, n),
{
    assert forall|m: int| m >= n implies #[trigger] ib_below(IfBranch { condition, body, span }, m) by {
        match condition { Some(c) => { assert(e_below(c, m)); } None => {} }
        assert forall|i: int| 0 <= i < body.len() implies s_below(#[trigger] body[i], m) by { assert(s_up(body@[i], n)); }
    }
}
pub broadcast proof fn lemma_up_casebranch(pattern: Identifier, variable: Option<Ref>, body: Vec<Statement>, span: Span, n: int)
    requires variable is Some ==> variable->Some_0 < n, all_up(body@, n),
    ensures #[trigger] cb_up(CaseBranch { pattern, variable, body, span }, n),
{
    assert forall|m: int| m >= n implies #[trigger] cb_below(CaseBranch { pattern, variable, body, span }, m) by {
        assert forall|i: int| 0 <= i < body.len() implies s_below(#[trigger] body[i], m) by { assert(s_up(body@[i], n)); }
    }
}
pub broadcast proof fn lemma_up_statement(s: Statement, n: int)
    requires match s {
        Statement::Assignment { target, value, .. } => e_up(target, n) && e_up(value, n),
        Statement::Blob { var, .. } | Statement::Enum { var, .. } => var < n,
        Statement::ExternalDefinition { var, ty, .. } => var < n && rt_up(ty, n),
        Statement::Definition { var, ty, value, .. } => var < n && rt_up(ty, n) && e_up(value, n),
        Statement::Loop { condition, body, .. } => e_up(condition, n) && all_up(body@, n),
        Statement::Break(_) | Statement::Continue(_) | Statement::Unreachable(_) => true,
        Statement::Ret { value, .. } => value is Some ==> e_up(value->Some_0, n),
        Statement::Block { statements, .. } => all_up(statements@, n),
        Statement::StatementExpression { value, .. } => e_up(value, n),
    },
    ensures #[trigger] s_up(s, n),
{
    assert forall|m: int| m >= n implies #[trigger] s_below(s, m) by {
        match s {
            Statement::Assignment { target, value, .. } => { assert(e_below(target, m)); assert(e_below(value, m)); }
            Statement::Definition { var, ty, value, .. } => { assert(e_below(value, m)); assert(rt_ok(ty, m)); }
            Statement::ExternalDefinition { var, ty, .. } => { assert(rt_ok(ty, m)); }
            Statement::Loop { condition, body, .. } => {
                assert(e_below(condition, m));
                assert forall|i: int| 0 <= i < body.len() implies s_below(#[trigger] body[i], m) by { assert(s_up(body@[i], n)); }
            }
            Statement::Ret { value, .. } => { match value { Some(v) => { assert(e_below(v, m)); } None => {} } }
            Statement::Block { statements, .. } => {
                assert forall|i: int| 0 <= i < statements.len() implies s_below(#[trigger] statements[i], m) by { assert(s_up(statements@[i], n)); }
            }
            Statement::StatementExpression { value, .. } => { assert(e_below(value, m)); }
            _ => {}
        }
    }
}
pub broadcast proof fn lemma_up_read_inv(e: Expression, n: int)
    requires #[trigger] e_up(e, n), e is Read,
    ensures e->Read_var < n,
{ assert(e_below(e, n)); }
pub broadcast group group_up {
    lemma_up_read_inv,
    lemma_up_read, lemma_up_variant, lemma_up_call, lemma_up_blobaccess, lemma_up_index, lemma_up_binop, lemma_up_uniop,
    lemma_up_if, lemma_up_case, lemma_up_function, lemma_up_blob, lemma_up_collection, lemma_up_literals,
    lemma_up_ifbranch, lemma_up_casebranch, lemma_up_statement,
}
