// ---- shared: the resolver's output AST (sylt-compiler/src/name_resolution.rs) -------------------
//@ type sylt-compiler/src/name_resolution.rs enum BinOp eq=none
//@ type sylt-compiler/src/name_resolution.rs enum UniOp eq=none
//@ type sylt-compiler/src/name_resolution.rs enum Collection eq=none
//@ type sylt-compiler/src/name_resolution.rs struct IfBranch eq=none
//@ type sylt-compiler/src/name_resolution.rs struct CaseBranch eq=none
//@ type sylt-compiler/src/name_resolution.rs enum Expression eq=none
//@ type sylt-compiler/src/name_resolution.rs enum Type eq=none
//@ type sylt-compiler/src/name_resolution.rs enum Statement eq=none
//@ type sylt-compiler/src/name_resolution.rs struct Var eq=none
impl Expression {
//@ fn sylt-compiler/src/name_resolution.rs span
//@   in Expression
//@   props C07
//@ end
}
impl Statement {
//@ fn sylt-compiler/src/name_resolution.rs span
//@   in Statement
//@   props C07
//@ end
}
